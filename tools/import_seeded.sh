#!/bin/bash
# tools/import_seeded.sh <ID> <n> <checks...> : evaluate /tmp/mut/<ID>/out/patch_<n>.diff (+demo) and store it under /verif/seeded/<ID>_<n>/
set -u
id=$1; n=$2; shift 2
src=${MUT_ROOT:-/tmp/mut}/$id/out
dst=/verif/seeded/${id}_$((n + ${MUT_OFFSET:-0}))
mkdir -p "$dst"
cp "$src/patch_$n.diff" "$dst/patch.diff"
[ -f "$src/demo_$n.py" ] && cp "$src/demo_$n.py" "$dst/demo.py"
[ -f "$src/notes_$n.md" ] && cp "$src/notes_$n.md" "$dst/notes.md"
demo=-; [ -f "$dst/demo.py" ] && demo="$dst/demo.py"
/verif/tools/eval_mutant.sh "$dst/patch.diff" "$demo" "$@" > "$dst/eval.txt" 2>&1
cat "$dst/eval.txt" | cut -c1-330
