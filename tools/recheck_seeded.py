#!/usr/bin/env python3
"""Development tool: run, for every seeded change, the check that caught it once more against the newest commit of /repo the
patch still applies to (a later fix: commit may have rewritten the same lines), and store the outcome as seeded/<id>/recheck.json.
    tools/recheck_seeded.py [id ...]"""
import json, os, re, shutil, subprocess, sys, tempfile
V = os.path.dirname(os.path.dirname(os.path.abspath(__file__)))
S = os.path.join(V, 'seeded')
revs = subprocess.run(['git', '-C', '/repo', 'log', '--format=%h'], capture_output=True, text=True).stdout.split()


def applies(rev, patch):
    idx = tempfile.mktemp(prefix='j1939idx.')
    env = dict(os.environ, GIT_INDEX_FILE=idx)
    try:
        subprocess.run(['git', '-C', '/repo', 'read-tree', rev], env=env, check=True)
        return subprocess.run(['git', '-C', '/repo', 'apply', '--cached', '--check', patch], env=env, capture_output=True).returncode == 0
    finally:
        if os.path.exists(idx):
            os.remove(idx)


only = sys.argv[1:]
bad = []
for d in sorted(os.listdir(S)):
    if only and d not in only:
        continue
    p = os.path.join(S, d)
    patch = os.path.join(p, 'patch.diff')
    meta = json.load(open(os.path.join(p, 'meta.json')))
    base = next((r for r in revs if applies(r, patch)), None)
    if base is None:
        print(d, 'patch applies to no commit'); bad.append(d); continue
    checks = [c['check'] for c in meta['checks_run'] if c['rc'] == 1 and c['signatures']] or [meta['property']]
    t = tempfile.mkdtemp(prefix='j1939re.')
    subprocess.run('git -C /repo archive %s | tar -x -C %s && cd %s && patch -p1 -s < %s' % (base, t, t, patch), shell=True, check=True)
    env = dict(os.environ, VERIF_REPO=t, VERIF_EVIDENCE_DIR='/tmp/j1939scratch_out', VERIF_REPLAY_DIR='/tmp/j1939scratch_out')
    out = {'base': base, 'head': revs[0], 'results': []}
    for c in checks[:1]:
        r = subprocess.run([os.path.join(V, 'check'), c, '--tier', 'quick', '--no-selftest'], env=env, capture_output=True, text=True, cwd=V)
        sigs = re.findall(r'^violation (\S+) runs=(\d+)', r.stdout, re.M)
        out['results'].append({'check': c, 'rc': r.returncode, 'signatures': [{'signature': s, 'runs': int(n)} for s, n in sigs][:8]})
    shutil.rmtree(t)
    json.dump(out, open(os.path.join(p, 'recheck.json'), 'w'), indent=1)
    ok = any(x['rc'] == 1 and x['signatures'] for x in out['results'])
    if not ok:
        bad.append(d)
    print(d, 'base', base, [(x['check'], x['rc'], len(x['signatures'])) for x in out['results']], 'CAUGHT' if ok else 'NOT CAUGHT', flush=True)
print('not caught:', bad)
