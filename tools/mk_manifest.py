#!/usr/bin/env python3
"""Regenerates /verif/MANIFEST.json from the table below (development tool)."""
import json
import os

VERIF = os.path.dirname(os.path.dirname(os.path.abspath(__file__)))

COMMON_NOTE = ('Trusted base: the simulator kernel (virtual clock advancing 1 read-cost per read, baton-passed real threads, SimQueue), SimBus '
               '(serialising, per-receiver FIFO), the independent reference codec/peer written from the SAE layouts, and the oracle code of the check. '
               'Sampling, not proof: a clean batch is evidence. Library code under /repo/j1939 runs unmodified (module-level time/queue/threading/'
               'secrets names rebound after import; no source hook).')

CHECKS = {
    'C01': ('exploration', 'seeded deterministic simulation: 2-4 real stacks on a simulated bus, delivery-model oracle',
            'Seeded search over swarm-generated multi-stack J1939-21 scenarios (sizes 0..1785 on boundary classes, windows 1..255 per stack, latency policies '
            'incl. synchronous zero-latency re-entrancy; schedule injection: eager wake-ups, submissions nested in the stack\'s own transmissions and callbacks, application calls parked at a source line inside send_pgn); every run is judged by an exactly-once / byte-identical / nothing-else delivery model and an idle check.', '7 C01'),
    'C02': ('exploration', 'seeded deterministic simulation: 2-3 real FD stacks, delivery model + capacity model fed by a bus monitor',
            'Seeded search over J1939-22 scenarios with up to 8 RTS/CTS + 4 BAM sessions per originator in one or both directions and calls beyond capacity (schedule injection as C01, incl. application calls parked at a source line inside send_pgn); '
            'delivery model, refusal-without-side-effects (bus record and table snapshot before/after), idle/pool check.', '7 C02'),
    'C03': ('exploration', 'deterministic simulation against an independent reference peer (RefPeer/RefCodec), enumerated CTS-window sequences + seeded sampling',
            'One real stack against a conforming peer written from the SAE frame layouts, either role, both data link layers; every CTS-window sequence for 2..6 '
            'packets and every RTS limit x max_cmdt enumerated, peer freedoms (windows, holds, reply latency, pacing) sampled.', '7 C03'),
    'C06': ('fault_enumeration', 'deterministic simulation with fault injection: loss of every frame k and silence of either peer from every frame k',
            'For every transfer shape a clean run fixes the F frames; one run per fault point (drop k, silence side k, drop_rx k) followed by a fresh transfer on the '
            'same pair; oracle: exact payload or nothing, give-up within the standard\'s timeout, abort frame, follow-up delivered, idle.', '7 C06'),
    'C07': ('exploration', 'seeded deterministic simulation: hostile frame sequences from a protocol-aware alphabet, liveness/spin oracle, follow-up with RefPeer',
            'Generated sequences of 1..60 well-formed and malformed transport frames with gaps around every timeout, with own transfers in flight; oracle: job '
            'thread alive, no busy spin (clock reads without blocking), 10 ms probe timer cadence, all sessions released after 3 s, follow-up transfer in each direction.', '7 C07'),
    'C08': ('fault_enumeration', 'deterministic simulation with schedule injection: sys.settrace pre-emption of the job thread at every executed source line',
            'A traced clean run lists every line event of each job thread during a transfer; one run per (stack, file, line, n-th hit) parks the thread there for '
            '0.2/1/5 ms while reception continues; pairs of points sampled. Oracle as C01/C02 plus thread liveness.', '7 C08'),
    'C09': ('exploration', 'seeded deterministic simulation with an independent bus monitor (credit per session, pacing)',
            'Stack as originator vs reference responder (grants 1..limit, holds), as responder vs reference originator (RTS limit 1..255), stack vs stack, and idle BAM; '
            'the monitor judges every data packet and every CTS on the bus record with virtual timestamps.', '7 C09'),
    'C10': ('exploration', 'seeded deterministic simulation with fault injection over generated histories, capacity model',
            'Histories of 1..40 transfers with clean/lost-frame/peer-abort/peer-silent/no-ack/busy-pair outcomes and overlapping inbound sessions, then the full '
            'advertised concurrency at once with colliding inbound session numbers (J1939-22: optionally held open while inbound sessions with the same numbers time out); return values, silence of refused calls, delivery of the final batch, pools.', '7 C10'),
    'C11': ('exploration', 'seeded deterministic simulation: call sequences vs independent multi-PG decoder on the bus record, virtual-time deadline oracle',
            'Sequences of 1..12 send_pgn calls (1..60 bytes, time limits 0..200 ms, FEFF/FBFF, app or timer-callback context; schedule injection: job thread or application call parked at its k-th source line with the other side running at that instant); every frame decoded independently and '
            'matched to the submissions (exactly once, no mixing, legal lengths, padding), each group on the bus within its time limit + Lmax.', '7 C11'),
    'C12': ('exploration', 'seeded deterministic simulation over registration histories, timer model with per-registration cookies',
            'Histories of up to 12 add_timer/remove_timer/subscribe/unsubscribe operations from application and timer-callback context incl. duplicates, '
            'self-removal, slow callbacks and application calls parked at a source line; every call attributed by cookie and compared with the allowed firing windows; no call after removal (call intervals in logical order).', '7 C12'),
    'C04': ('exploration', 'seeded deterministic simulation: 2-4 real CAs claiming concurrently, claim invariants over final states and the bus record',
            'NAME orderings (unrelated and sibling NAMEs), AAC bits, preferred addresses (immediate/veto range), start instants and claim delays on a grid around the 250 ms veto window, '
            'latency [0,5 ms]; oracle: settled in bounded time, unique addresses at quiescence, lowest NAME (also the only announcer) keeps, loser announces cannot-claim / re-claims, stability.', '7 C04'),
    'C05': ('exploration', 'seeded deterministic simulation + enumeration of 256 destinations x PDU formats, delivery model per listener',
            'Bystander stack with 0-3 CAs in several claim states and ECU-level listeners (none/int/predicate); single frames to every destination, complete foreign '
            'RTS/CTS, BAM, FD and multi-PG sessions between two reference nodes, every can.Message flag combination, and a session whose destination loses its listener mid-transfer; oracle: who is called, no transmission, no state.', '7 C05'),
    'C13': ('exploration', 'seeded deterministic simulation over claim histories x send entry points, bus-record source-address oracle',
            'One CA (AAC or fixed) driven through every claim history by a scripted contender; every send entry point called at random instants; oracle: raises iff '
            'not operational (claim request from 254 excepted), every application frame carries the address held at emission.', '7 C13'),
    'C14': ('exploration', 'seeded deterministic simulation, request delivery model',
            'Requester and 1-2 responder stacks with 1-3 CAs in every claim state; PGN boundary and random 18-bit values, all destination classes; oracle: exactly the '
            'operational owners are called once with (requester, destination, pgn); claim requests answered with address-claimed frames.', '7 C14'),
    'C16': ('exploration', 'seeded deterministic simulation in virtual time over four transports, independent J1939-73 codec',
            'DM1 sender with cycle times 50 ms..2 s, 1..400 DTCs, all lamp combinations, receivers on both data link layers (single frame, BAM, multi-PG, FD BAM); '
            'start/stop histories; bus payloads decoded independently; DM22 byte layout.', '7 C16'),
    'C17': ('exploration', 'seeded deterministic simulation with blocking client/server application threads, DM14 memory model',
            'Client and server stacks with MemoryAccess, blocking read/write/respond in simulated application threads, sizes 1..255 bytes, object sizes 1/2/4/8, '
            'seed/key on/off, several transactions with pauses from none to 0.4 s (eager wake-ups), repeated reads of one kept list, latency (0,5 ms]; two open known findings bound to observed races.', '7 C17'),
    'C18': ('exploration', 'seeded deterministic simulation with fault injection (wrong key, refusal, error codes, absent server) over histories',
            'Histories of up to 6 operations mixing successes and failures on the same objects; oracle: no data/app consultation before the right key, failures surface '
            'as exceptions naming the code, timeouts bounded, the next well-formed operation succeeds.', '7 C18'),
    'C19': ('fault_enumeration', 'deterministic simulation: intruding DM14 injected after every bus frame of every transaction shape',
            'For each C17 transaction shape a clean run fixes its frames; one run per (frame k, intruder kind, repeat); oracle: application never sees the intruder, '
            'legitimate result unchanged, replies to the intruder are DM15 failed/busy addressed to it.', '7 C19'),
}

NOT_APPLICABLE = {
    'C15': 'pure functions of their arguments (identifier/PGN/NAME codecs): no schedule, clock, fault, history or second party for a simulation to vary; '
           'input enumeration dressed as simulation would misrepresent the technique (the codecs are exercised incidentally by every simulated frame)',
}


def main():
    props = [json.loads(l) for l in open(os.path.join(VERIF, 'properties.jsonl'))]
    built = {p[:-3].upper() for p in os.listdir(os.path.join(VERIF, 'j1939sim', 'props')) if p.startswith('c') and p[1:3].isdigit() and p.endswith('.py')}
    checks = []
    na = []
    for p in props:
        pid = p['id']
        if pid in CHECKS and pid in built:
            level, technique, text, ref = CHECKS[pid]
            checks.append({
                'property_id': pid,
                'quick_cmd': './check %s --tier quick' % pid,
                'thorough_cmd': './check %s --tier thorough' % pid,
                'evidence_file': 'evidence/%s.json' % pid,
                'replay_cmd_template': './check %s --replay {path}' % pid,
                'engine': 'j1939sim',
                'level_claimed': {'category': level, 'text': text, 'design_ref': 'DESIGN.md section ' + ref},
                'level_note': COMMON_NOTE,
                'technique': technique,
            })
        elif pid in NOT_APPLICABLE:
            na.append({'property_id': pid, 'reason': NOT_APPLICABLE[pid]})
        else:
            na.append({'property_id': pid, 'reason': 'check not built yet (work in progress); not claimed'})
    m = {
        'version': 1,
        'setup_cmd': "/venv/bin/python -c \"import can, numpy, sys; sys.path.insert(0, '/repo'); import j1939; print('ok')\"",
        'hooks': {
            'guard': 'J1939_VERIF',
            'enable': 'no source hook is needed: the simulator rebinds the module-level names time, queue, threading and secrets of the library modules after import '
                      '(j1939sim/seams.py); J1939_VERIF is reserved and unused',
            'baseline_off_cmd': 'cd /repo && /venv/bin/python -m pytest -ra -q -p no:cacheprovider --timeout=900',
            'source_commits': [],
            'add_only': True,
        },
        'engines': [{'name': 'j1939sim', 'path': 'j1939sim/', 'serves_properties': [c['property_id'] for c in checks],
                     'kind_free_text': 'deterministic discrete-event simulator with fault injection: virtual clock, baton-scheduled real threads, simulated CAN bus, '
                                       'reference peer, seeded scenario search with ddmin shrinking and replay files'}],
        'checks': checks,
        'not_applicable': na,
        'notes': 'Every check honours VERIF_SEED and VERIF_TIER, imports the library from /repo\'s working tree on each invocation, rewrites its evidence file, prints '
                 'VIOLATION property=<id> replay=<path> and exits 1 on an unlisted violation, prints KNOWN-FINDING for open entries of known_findings.json and exits 0, '
                 'and exits 2 with HARNESS-ERROR when the simulator itself failed (never reported as a violation).',
    }
    json.dump(m, open(os.path.join(VERIF, 'MANIFEST.json'), 'w'), indent=1)
    print('checks:', [c['property_id'] for c in checks], 'n/a:', [x['property_id'] for x in na])


if __name__ == '__main__':
    main()
