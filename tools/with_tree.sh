#!/bin/bash
# Development tool (not used by registered checks): run a command against a scratch copy of /repo.
#   tools/with_tree.sh commit <rev> -- ./check C01 --no-selftest
#   tools/with_tree.sh patch <file.diff> -- ./check C01 --no-selftest
#   tools/with_tree.sh onbase <rev>:<file.diff> -- ./check C01 --no-selftest      (patch applied to an older commit)
set -u
mode=$1; arg=$2; [ "$mode" = patch ] && arg=$(realpath "$arg"); shift 3
d=$(mktemp -d /tmp/j1939tree.XXXXXX)
if [ "$mode" = commit ]; then
  git -C /repo archive "$arg" | tar -x -C "$d"
elif [ "$mode" = onbase ]; then
  git -C /repo archive "${arg%%:*}" | tar -x -C "$d"
  (cd "$d" && patch -p1 -s < "$(realpath "${arg#*:}")") || { echo "patch failed"; rm -rf "$d"; exit 3; }
else
  git -C /repo archive HEAD | tar -x -C "$d"
  # include uncommitted edits of /repo's working tree too
  (cd /repo && git diff HEAD) | (cd "$d" && patch -p1 -s >/dev/null 2>&1 || true)
  (cd "$d" && patch -p1 -s < "$(realpath "$arg")") || { echo "patch failed"; rm -rf "$d"; exit 3; }
fi
mkdir -p /tmp/j1939scratch_out
VERIF_REPO="$d" VERIF_EVIDENCE_DIR=/tmp/j1939scratch_out VERIF_REPLAY_DIR=/tmp/j1939scratch_out "$@"
rc=$?
rm -rf "$d"
exit $rc
