#!/usr/bin/env python3
"""Writes seeded/<id>/meta.json from eval.txt (+ notes.md) and prints the summary table for DESIGN.md."""
import json, os, re, sys
V = os.path.dirname(os.path.dirname(os.path.abspath(__file__)))
S = os.path.join(V, 'seeded')
# what had to be strengthened before the change was caught (filled in by hand as the work went on)
STRENGTHENED = {
    'C07_1': 'missed at first (needs the peer abort processed inside the stack\'s own abort transmission); C07 now also injects reactive frames from inside the stack\'s k-th transmission',
    'C10_2': 'missed at first (needs send_pgn during the job thread\'s transmission of the end-of-message status); C02 now also submits messages from inside the stack\'s own transmissions (incl. "when the EOMS goes out")',
    'C13_1': 'missed at first (needs an application send during the cannot-claim transmission); C13 now also calls entry points re-entrantly from inside the stack\'s k-th transmission',
    'C13_2': 'missed at first (send_request only tried 0xFECA and 0xEE00); C13 now draws request PGNs around the address-claim PGN (0xEEFF, 0x1EE00, ...)',
    'C14_1': 'caught in 25 of 60000 runs at first; boundary PGNs next to the claim PGN were added to the generator',
    'C14_2': 'missed at first (requester only operational or never started); C14 now puts the requester in cannot-claim / veto / moved states too, and treats any exception type as a raise',
    'C14_3': 'missed at first (no responder that had moved off its preferred address); C14 now has "moved" CAs (real claim history with a contender)',
    'C16_1': 'missed at first (completeness was not judged when the BAM outlasts the cycle); C16 now requires a new DM1 at the latest one cycle after the pair became free',
    'C12_1': 'reported as HARNESS-ERROR at first (job thread burning CPU in a super-linear loop without clock reads); the watchdog now classifies a thread that hangs inside library code as violation clause "hang"',
    'C11_1': 'first evaluation aborted with a harness error (c11 imported j1939 before the seam loader when VERIF_REPO pointed elsewhere); import order fixed',
    'C11_2': 'as C11_1',
}
rows = []
for d in sorted(os.listdir(S)):
    p = os.path.join(S, d)
    ev = os.path.join(p, 'eval.txt')
    if not os.path.isfile(ev):
        continue
    t = open(ev).read()
    prop = d.split('_')[0]
    suite = re.search(r'(\d+ passed[^\n]*)', t)
    exits = re.findall(r'exit=(\d+)', t)
    checks = []
    for m in re.finditer(r'== check (\S+) against the patched copy\n(.*?)(?=\n== |\Z)', t, re.S):
        body = m.group(2)
        sigs = re.findall(r'^violation (\S+) runs=(\d+)', body, re.M)
        rc = re.search(r'rc=(\d+)', body)
        checks.append({'check': m.group(1), 'rc': int(rc.group(1)) if rc else None, 'signatures': [{'signature': s, 'runs': int(n)} for s, n in sigs]})
    notes = open(os.path.join(p, 'notes.md')).read() if os.path.exists(os.path.join(p, 'notes.md')) else ''
    title = (notes.strip().splitlines() or [''])[0].lstrip('# ').strip()
    needs = ''
    m = re.search(r'(?:What is needed|What it needs|needed for it to manifest|Trigger|Manifests when|When it breaks)[^\n]*\n(.*?)(?:\n#|\n\*\*|\Z)', notes, re.S | re.I)
    if m:
        needs = ' '.join(m.group(1).split())[:700]
    caught = any(c['rc'] == 1 and c['signatures'] for c in checks)
    meta = {'id': d, 'property': prop, 'title': title, 'needs_in_order_to_manifest': needs,
            'patch': 'patch.diff', 'demonstration': 'demo.py (exit 1 with the patch, exit 0 without)',
            'confirmed': {'test_suite_with_patch': suite.group(1) if suite else None,
                          'demo_exit_with_patch': int(exits[0]) if len(exits) > 0 else None,
                          'demo_exit_without_patch': int(exits[1]) if len(exits) > 1 else None,
                          'how': 'tools/eval_mutant.sh: scratch copy of /repo HEAD (+patch) outside /repo and /verif; full pytest suite; demo on patched and clean copy; quick check(s) with VERIF_REPO=<patched copy>'},
            'checks_run': checks, 'caught': caught, 'strengthening': STRENGTHENED.get(d, 'none needed: caught by the check as it was'),
            'author': 'fresh sub-agent that saw only the property text and its own scratch worktree'}
    json.dump(meta, open(os.path.join(p, 'meta.json'), 'w'), indent=1)
    best = ''
    for c in checks:
        if c['signatures']:
            best = '%s `%s`' % (c['check'], c['signatures'][0]['signature'].split('/', 1)[1][:70])
            break
    rows.append('| %s | %s | %s | %s |' % (d, title[:95], best or '**not caught**', 'yes' if d in STRENGTHENED else ''))
print('| id | change | caught by (first signature) | needed strengthening |\n|---|---|---|---|')
print('\n'.join(rows))
