#!/usr/bin/env python3
"""Writes seeded/<id>/meta.json from eval.txt (+ notes.md) and prints the summary table for DESIGN.md."""
import json, os, re, sys
V = os.path.dirname(os.path.dirname(os.path.abspath(__file__)))
S = os.path.join(V, 'seeded')
# what had to be strengthened before the change was caught (filled in by hand as the work went on)
STRENGTHENED = {
    'C07_1': 'missed at first (needs the peer abort processed inside the stack\'s own abort transmission); C07 now also injects reactive frames from inside the stack\'s k-th transmission',
    'C10_2': 'missed at first (needs send_pgn during the job thread\'s transmission of the end-of-message status); C02 now also submits messages from inside the stack\'s own transmissions (incl. "when the EOMS goes out")',
    'C13_1': 'missed at first (needs an application send during the cannot-claim transmission); C13 now also calls entry points re-entrantly from inside the stack\'s k-th transmission',
    'C13_2': 'missed at first (send_request only tried 0xFECA and 0xEE00); C13 now draws request PGNs around the address-claim PGN (0xEEFF, 0x1EE00, ...)',
    'C14_1': 'caught in 25 of 60000 runs at first; boundary PGNs next to the claim PGN were added to the generator',
    'C14_2': 'missed at first (requester only operational or never started); C14 now puts the requester in cannot-claim / veto / moved states too, and treats any exception type as a raise',
    'C14_3': 'missed at first (no responder that had moved off its preferred address); C14 now has "moved" CAs (real claim history with a contender)',
    'C16_1': 'missed at first (completeness was not judged when the BAM outlasts the cycle); C16 now requires a new DM1 at the latest one cycle after the pair became free',
    'C12_1': 'reported as HARNESS-ERROR at first (job thread burning CPU in a super-linear loop without clock reads); the watchdog now classifies a thread that hangs inside library code as violation clause "hang"',
    'C11_1': 'first evaluation aborted with a harness error (c11 imported j1939 before the seam loader when VERIF_REPO pointed elsewhere); import order fixed',
    'C11_2': 'as C11_1',
    # ---- round 2 (ids continue after round 1).  "pre-emptive": the check was strengthened on reading the change's description,
    #      before it was evaluated, so it is not known whether the earlier version would have missed it
    'C05_3': 'missed at first (a listener registered for an address and removed again); C05 now registers and removes "ghost" listeners before the sweep and sends single transport frames to their addresses',
    'C05_4': 'missed at first (data page 1 PDU1 frames treated as broadcast); the C05 sweep now also runs with the data-page bit set',
    'C07_3': 'missed at first: the 10 ms probe timer kept waking the job thread and masked the lost wake-up; the probe timer is now absent in 40 % of the runs, and reactive frames can open a new inbound session (RTS / BAM from the peer)',
    'C08_4': 'missed at first: in the chained-transfer shape the pull overtook the acknowledgement; a shape with a 0.5 ms delayed pull was added so that the receive-callback send_pgn falls into the pre-emption hold',
    'C01_3': 'pre-emptive: a second parameter group on an (SA,DA) pair that already has a multi-packet message (refusal allowed, whatever is accepted must arrive intact)',
    'C01_4': 'pre-emptive: the application submits the next message from inside the end-of-message-acknowledgement callback',
    'C02_3': 'pre-emptive: as C01_4 for J1939-22 (EOMA callback)',
    'C06_3': 'pre-emptive: early follow-up broadcast before the receivers\' T1 expires (single fault per run)',
    'C07_4': 'pre-emptive: reactive / hostile CTS naming exactly "last segment + 1"',
    'C09_3': 'pre-emptive: reference responder that dies while holding the connection (no data may follow the hold)',
    'C09_4': 'pre-emptive: BAM pacing is also judged while a second send session merely waits for an absent peer',
    'C10_3': 'caught by C07 (reactive abort inside the stack\'s own abort transmission), not by C10 itself',
    'C10_4': 'caught by C02 (bidirectional traffic with equal session numbers), not by C10 itself',
    'C12_4': 'pre-emptive: timer callbacks that take real (virtual) time, with an oracle that excuses exactly the timers that fall due while such a callback runs',
    'C13_3': 'pre-emptive: clause independent of what the CA believes - no application frame from an address after a contender with a lower NAME claimed it',
    'C14_6': 'pre-emptive: an early request window while claim histories are still running, so that the same CAs are asked again later in another state',
    'C16_4': 'pre-emptive: the sender\'s callback may keep one lamp dict / code list and update them in place',
    'C17_4': 'pre-emptive: a serving application that answers a read from inside the notify callback',
    'C18_3': 'pre-emptive: boundary seeds 0x0000 and 0xFFFF handed out by the installed seed generator',
    'C19_4': 'pre-emptive: client source address drawn from {0x00, 0x01, 253, 0xF9, random}',
    # ---- round 3 (one agent per source file)
    'C05_5': 'missed at first (ownership of the destination ends while an RTS/CTS session towards it is open); C05 now opens a session towards an address owned by an ECU-level listener, removes the listener after the first data packet and requires silence and no delivery for the remaining packets',
    'C10_6': 'missed at first (an inbound time-out releases an outbound session number only while that number is in use); the J1939-22 final batch is now kept open by holding receivers while inbound sessions with the same numbers, opened by a node that falls silent, time out, and the call beyond capacity is made after that',
    'C11_5': 'missed at first (needs the job thread pre-empted between two source lines of its pass while the application submits); C11 now parks the job thread at its k-th source line (counted while a buffered group waits) and submits a group for the same buffer at that instant - which exposed a genuine defect on the unchanged tree (e92646e); the change is evaluated on the commit it was written for (264c0da), the repair rewrote the same lines',
    'C11_6': 'missed at first (the payload list is kept by reference); the C11 application now refills the list it passed as soon as send_pgn has returned, in half of the runs',
    'C04_5': 'reported with exit code 2 at first: the endless claim exchange ran into the simulator\'s event budget, which was classed as a harness error; exhausting the event budget is now violation clause `runaway`; C04 also gained the clause that the only CA to announce an address keeps it',
    'C04_6': 'missed by C04 at first (caught by C14): NAMEs were unrelated 64-bit values; C04 now also draws sibling NAMEs that differ in a single NAME field (identity number, manufacturer code, instances, function, ...)',
    'C17_6': 'missed at first (needs the next transaction to start before the receive thread has sent the closing DM14); C17 now issues transactions with no pause at all and the kernel has the eager-wake schedule fault (the woken thread runs at once, the waker is pre-empted right after put())',
    'C17_5': 'pre-emptive: the serving application keeps one list per memory object and hands the same list to respond() every time that object is read; the same object is read repeatedly',
    'C17_8': 'pre-emptive: served bytes that encode the limits of the signed range at every object size',
    'C19_5': 'pre-emptive: the installed seed generator returns a different seed on every call',
    'C16_5': 'pre-emptive: the DM1 sender\'s callback may be a bound method; subscribe / unsubscribe / subscribe histories on the receiving side',
    'C16_6': 'as C16_5',
    'C01_7': 'pre-emptive: the simulated queue honours maxsize (a put on a full queue parks the caller; in reception context it is reported as a hang)',
    'C13_5': 'caught by C01 (two CAs of one stack sending to the same destination), not by C13 itself',
    'C10_5': 'caught by C02, not by C10 itself',
    # ---- round 4 (one agent per kind of mistake)
    'C10_7': 'missed at first, and the renamed private pool lists broke the idle oracle (exit code 2): needs the application thread suspended inside the session-number allocator while the job thread releases a number; caught by C02 since application calls can be parked at a source line (Sim.call_in_thread); pool inspection is now optional',
    'C02_7': 'missed at first (needs the application thread suspended inside send_pgn between storing the broadcast session and sending its announcement); caught since application calls can be parked at a source line',
    'C12_6': 'needs the application thread suspended inside add_timer between the wake-up and the append; caught by the application-thread pre-emption added to C12 (the first evaluation ran while that was being written, so the earlier version was not measured)',
    'C12_7': 'evaluated with the extended C12 only (see C12_6)',
    'C05_7': 'missed at first (a CA created with bypass_address_claim=True that later loses its address); C05 now has such CAs (contender with a lower NAME after start)',
    'C01_9': 'missed at first (the caller\'s list is padded in place); the C01 application now sends one list object twice',
    'C06_6': 'missed at first: C06 did not require an abort from an originator that had sent its last data packet; on J1939-21 that wait is for a CTS or the acknowledgement, the exemption now applies to J1939-22 only',
    'C10_8': 'missed at first (a session number released twice: by the abort handler and by the job thread); C10 now submits two messages the moment the stack has processed a peer\'s abort, before the job thread\'s next pass',
    'C03_5': 'reported with exit code 2 at first: the stack handed send_message a data value of 256 and the simulated port raised from its own conversion; now violation clause illegal-frame',
    'C01_8': 'caught by C08 (pre-emption of the job thread during its pass), not by C01 itself',
    'C09_8': 'NOT CAUGHT: needs the receiving thread suspended between two statements of a handler while the job thread is awake; reception runs in scheduler context in this simulator and no property quantifies over that schedule (DESIGN 10, 12.9)',
    # ---- round 5 (one agent per property again, 133 earlier titles to stay away from)
    'C12_8': 'missed at first (a periodic callback that removes another timer due in the same pass and adds a new one in the same invocation: the list keeps its length); C12 callbacks can now perform several operations in one invocation, from one-shot operator timers and from periodic user callbacks',
    'C05_8': 'missed at first (a connection-mode transfer carrying a PDU2 parameter group to one address): C05 had no multi-packet message addressed to an address the stack owns; a reference node now sends RTS/CTS transfers with a PDU1 and a PDU2 parameter group to the owned addresses',
    'C13_7': 'caught by C11 (two CAs on one ECU, groups leave under the other CA\'s address), not by C13 itself: the author notes that the situation is outside C13\'s quantifier',
    'C16_11': 'missed at first (stop_send of one Dm1 sender stops every other sender on the ECU): C16 now runs a second, never stopped DM1 sender on a second CA of the sending ECU in 40 % of the runs',
    'C16_12': 'missed by C16 at first (caught by C12): stop_send is now also called from inside the supplier callback',
    'C06_8': 'missed at first (the responder\'s time-out abort is sent with source and destination swapped): the abort clause counted abort frames regardless of their addressing; it now requires own address as source and the peer\'s as destination',
    'C10_9': 'missed by C10 at first (caught by C02): histories now contain broadcasts of a PDU1 parameter group to the global address',
    'C19_6': 'missed at first (a key left over from the previous transaction): C19 transactions can now be the second one on the objects, after an undisturbed first transaction (sampled and enumerated)',
    'C19_7': 'missed at first (an intruding DM14 with command operation completed): the intruder\'s command is now drawn from read / write / operation completed / erase (operation completed also enumerated after every frame)',
    'C01_10': 'pre-emptive: SimLock reports a thread that asks again for a non-reentrant lock it holds (a reply handled inside the call that holds it) as clause hang instead of parking it for ever',
    'C12_9': 'pre-emptive: idle gaps that are not whole milliseconds',
    # ---- round 6 (one agent per source file area again, 169 earlier titles to stay away from)
    'C16_14': 'missed at first (the receiver refreshes the dicts it handed out earlier): the C16 subscriber now keeps the lamp dict and code list it was given and they are compared with copies taken at delivery at the end of the run',
    'C11_15': 'missed at first because the seam misrepresented the code under test: threading.current_thread() returned the real OS thread, never the simulated job thread, so `current_thread() is self._job_thread` was always false; the stand-in now returns the running simulated thread (the change was then caught by the checks as they were)',
    'C05_10': 'missed at first (subscribe drops a callable that is already registered): C05 registered a different closure per listener; in a quarter of the runs one callable is now shared by all CAs and ECU-level listeners of the stack and the number of calls is judged',
    'C12_10': 'missed at first (duplicate registrations through ControllerApplication.subscribe survive unsubscribe): C12 subscribed at the ECU only; subscribe / unsubscribe now also go through a CA of the stack',
    'C03_9': 'missed by C03 at first (caught by C02): reply latency 0 was an event 0 ns later, after the send call had returned; with the stack as originator C03 now also uses a zero-latency bus and a reference peer that answers inside its frame handler',
    'C11_11': 'missed by C11 at first; the C02 signature recorded at import time turned out to be the genuine session-number race of the unchanged tree (415665a) that happened to show in that run, not this change (found by tools/recheck_seeded.py); C11 now runs an unrelated periodic application timer (30 or 100 ms) on the sending ECU in 40 % of the runs',
    'C09_10': 'NOT CAUGHT: needs a responder that re-requests an earlier segment with a CTS, a freedom the reference peer does not use and that neither C03 nor C09 lists among the peer\'s choices (DESIGN 10, 12.9)',
}
rows = []
for d in sorted(os.listdir(S)):
    p = os.path.join(S, d)
    ev = os.path.join(p, 'eval.txt')
    if not os.path.isfile(ev):
        continue
    t = open(ev).read()
    prop = d.split('_')[0]
    suite = re.search(r'(\d+ passed[^\n]*)', t)
    exits = re.findall(r'exit=(\d+)', t)
    checks = []
    for m in re.finditer(r'== check (\S+) against the patched copy\n(.*?)(?=\n== |\Z)', t, re.S):
        body = m.group(2)
        sigs = re.findall(r'^violation (\S+) runs=(\d+)', body, re.M)
        rc = re.search(r'rc=(\d+)', body)
        checks.append({'check': m.group(1), 'rc': int(rc.group(1)) if rc else None, 'signatures': [{'signature': s, 'runs': int(n)} for s, n in sigs]})
    notes = open(os.path.join(p, 'notes.md')).read() if os.path.exists(os.path.join(p, 'notes.md')) else ''
    title = (notes.strip().splitlines() or [''])[0].lstrip('# ').strip()
    needs = ''
    m = re.search(r'(?:What is needed|What it needs|needed for it to manifest|Trigger|Manifests when|When it breaks)[^\n]*\n(.*?)(?:\n#|\n\*\*|\Z)', notes, re.S | re.I)
    if m:
        needs = ' '.join(m.group(1).split())[:700]
    caught = any(c['rc'] == 1 and c['signatures'] for c in checks)
    meta = {'id': d, 'property': prop, 'title': title, 'needs_in_order_to_manifest': needs,
            'patch': 'patch.diff', 'demonstration': 'demo.py (exit 1 with the patch, exit 0 without)',
            'confirmed': {'test_suite_with_patch': suite.group(1) if suite else None,
                          'demo_exit_with_patch': int(exits[0]) if len(exits) > 0 else None,
                          'demo_exit_without_patch': int(exits[1]) if len(exits) > 1 else None,
                          'how': 'tools/eval_mutant.sh: scratch copy of /repo HEAD (+patch) outside /repo and /verif; full pytest suite; demo on patched and clean copy; quick check(s) with VERIF_REPO=<patched copy>'},
            'checks_run': checks, 'caught': caught, 'strengthening': STRENGTHENED.get(d, 'none needed: caught by the check as it was'),
            'author': 'fresh sub-agent that saw only the property text and its own scratch worktree'}
    json.dump(meta, open(os.path.join(p, 'meta.json'), 'w'), indent=1)
    best = ''
    for c in checks:
        if c['signatures']:
            best = '%s `%s`' % (c['check'], c['signatures'][0]['signature'].split('/', 1)[1][:70])
            break
    rows.append('| %s | %s | %s | %s |' % (d, title[:95], best or '**not caught**', 'yes' if d in STRENGTHENED else ''))
print('| id | change | caught by (first signature) | needed strengthening |\n|---|---|---|---|')
print('\n'.join(rows))
