#!/usr/bin/env python3
"""Determinism self-test at scale (development tool): for every check, N run indices are executed
 (a) split over A subprocesses with PYTHONHASHSEED=0 and (b) split over B subprocesses with another
 PYTHONHASHSEED, in fresh interpreters; the event-log digests must agree pairwise.  Writes selftest/determinism.json."""
import json, os, subprocess, sys, time
from concurrent.futures import ThreadPoolExecutor
V = os.path.dirname(os.path.dirname(os.path.abspath(__file__)))
N = int(os.environ.get('N', '400'))
CHECKS = sys.argv[1:] or ['C01', 'C02', 'C03', 'C04', 'C05', 'C06', 'C07', 'C08', 'C09', 'C10', 'C11', 'C12', 'C13', 'C14', 'C16', 'C17', 'C18', 'C19']

def digests(chk, idx, hashseed, seed):
    env = dict(os.environ, PYTHONHASHSEED=str(hashseed), VERIF_SEED=str(seed))
    p = subprocess.run([os.path.join(V, 'check'), chk, '--tier', 'quick', '--digests', ','.join(map(str, idx))], env=env, capture_output=True, text=True, cwd=V)
    if p.returncode != 0:
        raise RuntimeError(p.stderr[-500:])
    return json.loads(p.stdout.strip().splitlines()[-1])

def split(idx, k):
    return [idx[i::k] for i in range(k)]

out = {'n_per_check': N, 'results': {}}
t0 = time.time()
for chk in CHECKS:
    seed = 7
    idx = list(range(0, 3 * N, 3))
    with ThreadPoolExecutor(12) as ex:
        fa = [ex.submit(digests, chk, part, 0, seed) for part in split(idx, 7)]
        fb = [ex.submit(digests, chk, part, 4711, seed) for part in split(idx, 5)]
        a, b = {}, {}
        for f in fa:
            a.update(f.result())
        for f in fb:
            b.update(f.result())
    bad = [i for i in a if a[i] != b.get(i)]
    out['results'][chk] = {'indices': len(a), 'mismatches': len(bad), 'first_mismatches': bad[:5],
                           'distinct_digests': len(set(a.values())), 'a': '7 processes, PYTHONHASHSEED=0', 'b': '5 processes, PYTHONHASHSEED=4711'}
    print(chk, out['results'][chk], flush=True)
out['wall_s'] = round(time.time() - t0, 1)
os.makedirs(os.path.join(V, 'selftest'), exist_ok=True)
json.dump(out, open(os.path.join(V, 'selftest', 'determinism.json'), 'w'), indent=1)
print('mismatching checks:', [c for c, r in out['results'].items() if r['mismatches']])
