#!/bin/bash
# Development tool: confirm a candidate breaking change and run checks against it.
#   tools/eval_mutant.sh <patch.diff> <demo.py|-> <check args...>      e.g.  tools/eval_mutant.sh /tmp/mut/C06/out/patch_1.diff /tmp/mut/C06/out/demo_1.py C06 C10
# Steps: scratch copy of /repo HEAD (+patch) outside /repo and /verif; test suite on it; demo with and without the patch; quick check(s) against it.
set -u
patch=$(realpath "$1"); demo=$2; shift 2
[ "$demo" != "-" ] && demo=$(realpath "$demo")
d=$(mktemp -d /tmp/j1939mut.XXXXXX)
c=$(mktemp -d /tmp/j1939clean.XXXXXX)
base=${BASE_REV:-HEAD}      # BASE_REV=<commit>: the change was written against an older commit (a later fix: commit touches the same lines)
git -C /repo archive "$base" | tar -x -C "$d"
git -C /repo archive "$base" | tar -x -C "$c"
echo "== base $(git -C /repo rev-parse --short "$base")"
(cd "$d" && patch -p1 -s < "$patch") || { echo "RESULT patch-does-not-apply"; rm -rf "$d" "$c"; exit 3; }
echo "== test suite with the patch"
(cd "$d" && timeout 900 /venv/bin/python -m pytest -q -p no:cacheprovider --timeout=900 2>&1 | tail -2)
if [ "$demo" != "-" ]; then
  echo "== demo with the patch (expect exit 1)"
  (cd "$d" && PYTHONPATH="$d" timeout 180 /venv/bin/python "$demo" > "$d/demo.out" 2>&1; echo "exit=$?"; tail -3 "$d/demo.out")
  echo "== demo without the patch (expect exit 0)"
  (cd "$c" && PYTHONPATH="$c" timeout 180 /venv/bin/python "$demo" > "$c/demo.out" 2>&1; echo "exit=$?"; tail -2 "$c/demo.out")
fi
mkdir -p /tmp/j1939scratch_out
for chk in "$@"; do
  echo "== check $chk against the patched copy"
  o=$(cd /verif && VERIF_REPO="$d" VERIF_EVIDENCE_DIR=/tmp/j1939scratch_out VERIF_REPLAY_DIR=/tmp/j1939scratch_out timeout 900 ./check "$chk" --tier quick --no-selftest 2>&1 | grep -v "^VIOLATION" | cut -c1-400 | tail -6)
  echo "$o"
  # STOP_AT_FIRST=1: the remaining checks are skipped once one check has reported the change
  if [ "${STOP_AT_FIRST:-0}" = 1 ] && echo "$o" | grep -q "rc=1$"; then break; fi
done
rm -rf "$d" "$c"
