#!/usr/bin/env python3
"""Development tool: import $MUT_ROOT/<Fk>/out/patch_<n>.diff (default /tmp/mut3) as seeded/<Cxx>_<next> and evaluate it against the
declared property's check plus the checks that exercise the same source file / theme."""
import os, re, shutil, subprocess, sys, glob
V = os.path.dirname(os.path.dirname(os.path.abspath(__file__)))
NEIGH = {'F1': 'C01 C03 C06 C07 C08 C09 C10', 'F2': 'C01 C03 C05 C06 C07 C09', 'F3': 'C02 C03 C06 C07 C08 C09 C10', 'F4': 'C02 C03 C05 C06 C07 C09',
         'F5': 'C11', 'F6': 'C12 C05 C07 C01 C11', 'F7': 'C04 C13 C14 C05', 'F8': 'C16', 'F9': 'C17 C18 C19', 'F10': 'C17 C18 C19',
         'T1': 'C01 C12 C08 C07 C11', 'T2': 'C02 C10 C11 C08 C07', 'T3': 'C08 C07 C01 C02 C06', 'T4': 'C06 C09 C12 C11 C16 C18', 'T5': 'C10 C06 C07 C18 C12',
         'T6': 'C01 C02 C11 C16 C17 C12 C05', 'T7': 'C04 C13 C14 C05', 'T8': 'C17 C18 C19', 'T9': 'C16 C03 C11 C14 C01', 'T10': 'C09 C03 C01 C02 C06',
         'G1': 'C01 C03 C06 C07 C08 C09 C10', 'G2': 'C01 C03 C05 C06 C07 C09', 'G3': 'C02 C03 C06 C07 C08 C09 C10', 'G4': 'C02 C03 C05 C06 C07 C09',
         'G5': 'C11 C02 C13', 'G6': 'C12 C05 C07 C01 C11 C16', 'G7': 'C04 C13 C14 C05', 'G8': 'C16', 'G9': 'C17 C18 C19', 'G10': 'C17 C18 C19',
         'C01': 'C01 C03 C09 C08 C06 C07', 'C02': 'C02 C03 C09 C10 C08 C07', 'C03': 'C03 C01 C02 C09', 'C04': 'C04 C13 C14 C05', 'C05': 'C05 C04 C14 C01',
         'C06': 'C06 C10 C07 C03', 'C07': 'C07 C06 C10 C08', 'C08': 'C08 C01 C02 C07', 'C09': 'C09 C03 C01 C02', 'C10': 'C10 C02 C06 C07', 'C11': 'C11 C02 C05 C12',
         'C12': 'C12 C11 C16 C07', 'C13': 'C13 C04 C14 C16', 'C14': 'C14 C13 C04 C05', 'C16': 'C16 C12 C01 C11', 'C17': 'C17 C18 C19', 'C18': 'C18 C17 C19', 'C19': 'C19 C17 C18'}
fid, n = sys.argv[1], sys.argv[2]
src = '%s/%s/out' % (os.environ.get('MUT_ROOT', '/tmp/mut3'), fid)
notes = open(os.path.join(src, 'notes_%s.md' % n)).read()
m = re.search(r'Property:\s*(C\d\d)', notes)
prop = m.group(1) if m else NEIGH[fid].split()[0]
k = 1
while os.path.exists(os.path.join(V, 'seeded', '%s_%d' % (prop, k))):
    k += 1
dst = os.path.join(V, 'seeded', '%s_%d' % (prop, k))
os.makedirs(dst)
shutil.copy(os.path.join(src, 'patch_%s.diff' % n), os.path.join(dst, 'patch.diff'))
shutil.copy(os.path.join(src, 'demo_%s.py' % n), os.path.join(dst, 'demo.py'))
open(os.path.join(dst, 'notes.md'), 'w').write(notes)
checks = [prop] + [c for c in NEIGH[fid].split() if c != prop]
out = subprocess.run([os.path.join(V, 'tools', 'eval_mutant.sh'), os.path.join(dst, 'patch.diff'), os.path.join(dst, 'demo.py')] + checks, capture_output=True, text=True)
open(os.path.join(dst, 'eval.txt'), 'w').write(out.stdout + out.stderr)
print(fid, n, '->', os.path.basename(dst), [l[:160] for l in out.stdout.splitlines() if re.match(r'(C\d\d tier=|exit=|\d+ passed)', l)])
