#!/usr/bin/env python3
"""Development tool: for every 'fixed' entry of known_findings.json run the check against the parent of the
fix commit (scratch copy) and confirm that the violation is reported again with a matching signature."""
import fnmatch, json, os, re, subprocess, sys, tempfile, shutil
V = os.path.dirname(os.path.dirname(os.path.abspath(__file__)))
f = json.load(open(os.path.join(V, 'known_findings.json')))['findings']
only = sys.argv[1:]
rows = []
for e in f:
    if e['status'] != 'fixed' or (only and e['property'] not in only):
        continue
    commits = re.findall(r'[0-9a-f]{7}', e['commit']) if e.get('commit') else []
    c = commits[0]
    d = tempfile.mkdtemp(prefix='j1939reg.')
    subprocess.run('git -C /repo archive %s^ | tar -x -C %s' % (c, d), shell=True, check=True)
    env = dict(os.environ, VERIF_REPO=d, VERIF_EVIDENCE_DIR='/tmp/j1939scratch_out', VERIF_REPLAY_DIR='/tmp/j1939scratch_out')
    p = subprocess.run([os.path.join(V, 'check'), e['property'], '--tier', 'quick', '--no-selftest'], env=env, capture_output=True, text=True, cwd=V)
    sigs = re.findall(r'^violation (\S+)', p.stdout, re.M)
    hit = [s for s in sigs if fnmatch.fnmatchcase(s, e['signature'])]
    rows.append((e['property'], c, e['signature'], p.returncode, bool(hit), len(sigs)))
    print('%s %s^ rc=%d matched=%s (%d signatures) %s' % (e['property'], c, p.returncode, bool(hit), len(sigs), e['signature']), flush=True)
    shutil.rmtree(d)
bad = [r for r in rows if not r[4]]
print('not re-detected:', bad)
