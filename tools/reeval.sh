#!/bin/bash
# Development tool: re-run the evaluation of seeded/<id> (after a check was strengthened) and rewrite its eval.txt.
#   tools/reeval.sh C11_5 C11            BASE_REV=264c0da tools/reeval.sh C11_5 C11
id=$1; shift
d=/verif/seeded/$id
STOP_AT_FIRST=1 /verif/tools/eval_mutant.sh "$d/patch.diff" "$d/demo.py" "$@" > "$d/eval.txt.new" 2>&1
mv "$d/eval.txt.new" "$d/eval.txt"
grep -E "^(== base|C[0-9]+ tier=|exit=|[0-9]+ passed|RESULT)" "$d/eval.txt" | cut -c1-160
