"""Builds a simulated network of real ElectronicControlUnit stacks from a scenario dict."""
import random
import sys

from . import kernel, seams
from .bus import SimBus
from .kernel import Sim

NAME_BASE = 0x0000_1234_0000_0000


def payload(fill, n):
    """Deterministic pseudo-random payload (list of ints) from an integer fill seed."""
    return list(random.Random(fill * 7919 + n).randbytes(n))


class Stack:
    def __init__(self, world, cfg):
        j = world.j
        self.world = world
        self.cfg = cfg
        self.name = cfg['name']
        self.port = world.bus.port(self.name)
        self.notify_excs = []
        self.ecu = j.ElectronicControlUnit(
            data_link_layer=cfg.get('dll', 'j1939-21'),
            max_cmdt_packets=cfg.get('max_cmdt', 1),
            minimum_tp_rts_cts_dt_interval=cfg.get('rts_cts_interval'),
            minimum_tp_bam_dt_interval=cfg.get('bam_interval'),
            send_message=self.port.send)
        self.port.bind_ecu(self.ecu, via=cfg.get('via', 'listener'),
                           exc_sink=lambda fr, e: self.notify_excs.append((fr.seq, type(e).__name__)))
        self.job = self.ecu._job_thread
        if world.tracers and self.name in world.tracers:
            self.job.trace = world.tracers[self.name].global_trace
        self.cas = []
        for i, c in enumerate(cfg.get('cas', [])):
            nm = j.Name(value=c['name']) if 'name' in c else j.Name(value=NAME_BASE + (hash_name(self.name) << 8) + i)
            ca = j.ControllerApplication(nm, c.get('addr'), bypass_address_claim=c.get('bypass', True))
            self.ecu.add_ca(controller_application=ca)
            self.cas.append(ca)
            if c.get('listen', True):
                ca.subscribe(world._listener(self.name, 'ca%d' % i))
        for i, adr in enumerate(cfg.get('ecu_listeners', [])):
            if isinstance(adr, dict):     # predicate listener: accepts a set of addresses
                accept = set(adr['accept'])
                self.ecu.subscribe(world._listener(self.name, 'ecu%d' % i), (lambda d, a=accept: d in a))
            else:
                self.ecu.subscribe(world._listener(self.name, 'ecu%d' % i), adr)

    # ------------------------------------------------------------------ introspection
    def dll(self):
        return self.ecu.j1939_dll

    def tables(self):
        d = self.dll()
        out = {'rcv': len(d._rcv_buffer), 'snd': len(d._snd_buffer)}
        mp = getattr(d, '_multi_pg_snd_buffer', None)
        if mp is not None:
            out['mpg'] = len(mp)
            # the session-number pools are private: if a tree represents them differently, the pools are judged by behaviour only
            # (C10's final batch needs every number), not by inspection
            for key, attr in (('bam_free', '_J1939_22__bam_session_list'), ('rts_free', '_J1939_22__rts_cts_session_list')):
                pool = getattr(d, attr, None)
                if isinstance(pool, list):
                    out[key] = sum(1 for x in pool if x is True)
        return out

    def idle_problems(self):
        """Empty list iff the stack is idle: tables empty, FD pools full, job thread alive and parked
        in its wait."""
        p = []
        t = self.tables()
        if t['rcv']:
            p.append('rcv_buffer=%d' % t['rcv'])
        if t['snd']:
            p.append('snd_buffer=%d' % t['snd'])
        if t.get('mpg'):
            p.append('multi_pg_buffer=%d' % t['mpg'])
        if 'bam_free' in t and t['bam_free'] != 4:
            p.append('bam_pool_free=%d' % t['bam_free'])
        if 'rts_free' in t and t['rts_free'] != 8:
            p.append('rts_cts_pool_free=%d' % t['rts_free'])
        p.extend(self.thread_problems())
        return p

    def thread_problems(self):
        p = []
        job = self.job
        if job.exc is not None:
            p.append('job-thread-died:%s' % type(job.exc).__name__)
        elif job.name in self.world.sim.livelocked:
            p.append('job-thread-livelock')
        elif job.done:
            p.append('job-thread-ended')
        elif job.parked_at != 'queue.get':
            p.append('job-thread-not-waiting:%s' % job.parked_at)
        return p


def hash_name(s):
    h = 0
    for ch in s:
        h = (h * 131 + ord(ch)) & 0xFFFF
    return h


class World:
    def __init__(self, scn, keep_log=False, tracer_factory=None):
        self.j = seams.install()
        self.scn = scn
        self.tracers = None
        k = scn.get('kernel', {})
        self.sim = Sim(scn['seed'], read_cost_ns=k.get('read_cost_ns', 1000), lmax_ns=k.get('lmax_ns', 50_000),
                       keep_log=keep_log)
        self.sim.eager_wake = float(k.get('eager_wake', 0.0))
        self.bus = SimBus(self.sim, scn.get('latency'), scn.get('faults'), seed=scn['seed'])
        self.deliveries = []
        self._shared = {}
        self.delivery_hooks = []     # callables(stack, listener, pgn, sa, data) run inside the listener callback (application reacting)
        self.stacks = {}
        if tracer_factory is not None:
            self.tracers = tracer_factory(self.sim)
        for s in scn.get('stacks', []):
            self.stacks[s['name']] = Stack(self, s)

    def _listener(self, stack, lid):
        cfg = next((x for x in self.scn.get('stacks', []) if x['name'] == stack), {})
        if cfg.get('shared_callback'):
            # one callable registered for every CA / ECU-level listener of the stack (an application with a single receive function)
            if stack not in self._shared:
                self._shared[stack] = self._make_listener(stack, 'shared')
            return self._shared[stack]
        return self._make_listener(stack, lid)

    def _make_listener(self, stack, lid):
        def cb(priority, pgn, sa, timestamp, data):
            d = bytes(bytearray(data)) if data is not None else None
            self.deliveries.append({'t': self.sim.now, 'stack': stack, 'l': lid, 'prio': priority, 'pgn': pgn,
                                    'sa': sa, 'data': d})
            self.sim.log('deliver', stack, lid, pgn, sa, d)
            for h in self.delivery_hooks:
                h(stack, lid, pgn, sa, d)
        return cb

    def spin_or_dead(self):
        """Thread-level problems across all stacks (highest causal priority)."""
        out = []
        for s in self.stacks.values():
            for p in s.thread_problems():
                if p.startswith('job-thread-died') or p.startswith('job-thread-livelock') or p == 'job-thread-ended':
                    out.append((s.name, p))
        return out

    def close(self):
        self.sim.shutdown()


def thread_exc_site(th):
    """file:function of the innermost library frame of a captured thread exception."""
    e = th.exc
    if e is None:
        return ''
    tb = e.__traceback__
    site = ''
    while tb is not None:
        fn = tb.tb_frame.f_code.co_filename
        if '/j1939/' in fn:
            site = '%s:%s' % (fn.rsplit('/', 1)[1], tb.tb_frame.f_code.co_name)
        tb = tb.tb_next
    return site
