"""Deterministic simulation kernel: virtual clock, event heap, baton-passed real threads,
simulated blocking queues, spin guard and wall-clock watchdog.

Exactly one of {scheduler, one SimThread} executes at any instant; the scheduler decides who.
All time is integer nanoseconds.  Nothing in here imports the library under test.
"""
import heapq
import hashlib
import queue as _real_queue
import random
import os
import sys
import threading as _real_threading
from collections import deque

ORIGIN_NS = 1000 * 10 ** 9
SPIN_READS = 2000          # clock reads in one slice without blocking => "spin"
SPIN_SLICES_KILL = 20      # forced yields in a row before the thread is declared livelocked

CURRENT = None             # the Sim the seams delegate to (one at a time per process)
ZOMBIES = 0                # real threads of earlier runs in this process that could not be stopped (they keep burning CPU)


class SimKilled(BaseException):
    """Raised inside a parked SimThread at teardown (or when the spin guard kills it)."""


class HarnessError(Exception):
    """The simulator itself failed (never a property violation)."""


class EventBudgetExceeded(HarnessError):
    def __init__(self, budget):
        HarnessError.__init__(self, 'event budget exceeded')
        self.budget = budget


class IllegalFrame(Exception):
    """The stack handed send_message a frame no CAN interface can send (a data value outside 0..255, too many bytes)."""


class LibraryHang(BaseException):
    """A simulated thread burnt wall-clock time inside the library without ever blocking or reading the
    clock (an endless or super-linear loop): reported as a violation clause 'hang', not as a harness error."""

    def __init__(self, thread, site):
        BaseException.__init__(self, '%s hangs in %s' % (thread, site))
        self.thread = thread
        self.site = site


def _library_site(th):
    """file:function of the innermost frame of thread th that lies in the library under test ('' if none)."""
    import os
    repo = os.path.realpath(os.environ.get('VERIF_REPO', '/repo'))
    fr = sys._current_frames().get(th._real.ident) if th._real is not None else None
    while fr is not None:
        fn = os.path.realpath(fr.f_code.co_filename)
        if fn.startswith(os.path.join(repo, 'j1939') + os.sep):
            # innermost library frame (harness callbacks invoked by the library are trivial and cannot loop)
            return '%s:%s' % (os.path.basename(fn), fr.f_code.co_name)
        fr = fr.f_back
    return ''


def _async_kill(th):
    import ctypes
    if th._real is not None and th._real.ident is not None:
        ctypes.pythonapi.PyThreadState_SetAsyncExc(ctypes.c_ulong(th._real.ident), ctypes.py_object(SimKilled))


class Sim:
    def __init__(self, seed, read_cost_ns=1000, lmax_ns=50_000, watchdog_s=20.0, keep_log=False):
        global CURRENT
        self.rng = random.Random(seed)
        self.now = ORIGIN_NS
        self.read_cost = int(read_cost_ns)
        self.lmax = max(1000, int(lmax_ns))
        self.watchdog_s = watchdog_s
        self.heap = []
        self.seq = 0
        self.threads = []
        self.current = None
        self.baton = _real_threading.Semaphore(0)
        self.killing = False
        self.spin_events = []       # (thread name, t_ns)
        self.livelocked = []        # thread names killed by the spin guard
        self.hung = []              # (thread name, library site) killed by the wall-clock watchdog
        self.eager_wake = 0.0       # probability that a put() runs the woken thread at once (waker pre-empted after put)
        self.eager_wakes = 0
        self.events_run = 0
        self.clock_reads = 0
        self._h = hashlib.sha256()
        self.keep_log = keep_log
        self.logbuf = []
        self.max_events = 2_000_000
        self.lock_waits = 0
        self.step_depth = 0          # > 0 while events are run from inside a blocked scheduler-context call (another logical thread)
        self.app_calls_in_thread = 0
        CURRENT = self

    # ---------------------------------------------------------------- logging / digest
    def log(self, *entry):
        s = repr((self.now,) + entry)
        self._h.update(s.encode())
        if self.keep_log:
            self.logbuf.append(s)

    def digest(self):
        return self._h.hexdigest()

    # ---------------------------------------------------------------- clock
    def read_clock(self):
        t = self.now
        self.now += self.read_cost
        self.clock_reads += 1
        cur = self.current
        if cur is not None:
            cur.reads += 1
            if cur.reads > SPIN_READS:
                self._spin_yield(cur)
        return t / 1e9

    def t(self):
        """Current virtual time in seconds (no read cost; for the harness/oracles only)."""
        return self.now / 1e9

    def wake_latency(self):
        return self.rng.randint(1000, self.lmax)

    # ---------------------------------------------------------------- events
    def at(self, t_ns, fn, tag=''):
        self.seq += 1
        heapq.heappush(self.heap, (int(t_ns), self.seq, fn, tag))

    def after(self, d_ns, fn, tag=''):
        self.at(self.now + int(d_ns), fn, tag)

    def _step(self):
        t, _seq, fn, _tag = heapq.heappop(self.heap)
        if t > self.now:
            self.now = t
        self.events_run += 1
        if self.events_run > self.max_events:
            raise EventBudgetExceeded(self.max_events)
        fn()

    def run_until(self, t_ns):
        if self.current is not None:
            raise HarnessError('run_until from a SimThread')
        while self.heap and self.heap[0][0] <= t_ns:
            self._step()
        if self.now < t_ns:
            self.now = int(t_ns)

    def run_for(self, seconds):
        self.run_until(self.now + int(seconds * 1e9))

    def run_idle(self, limit_s):
        """Run until no event is pending or limit_s of virtual time passed."""
        end = self.now + int(limit_s * 1e9)
        while self.heap and self.heap[0][0] <= end:
            self._step()

    # ---------------------------------------------------------------- threads
    def spawn(self, target, name, args=()):
        th = SimThread(self, target=target, name=name, args=args)
        th.start()
        return th

    def _resume(self, th):
        if th.done or th.dead:
            return
        if self.current is not None:
            raise HarnessError('resume while %r runs' % (self.current.name,))
        self.current = th
        th.reads = 0
        th.parked_at = None
        self.log('run', th.name)
        th._go.release()
        if not self.baton.acquire(timeout=self.watchdog_s):
            # the thread neither blocked nor read the clock for watchdog_s of wall time
            site = _library_site(th)
            _async_kill(th)
            stopped = self.baton.acquire(timeout=10.0)
            self.current = None
            if not stopped:
                th.dead = True
                global ZOMBIES
                ZOMBIES += 1
            if site:
                self.hung.append((th.name, site))
                self.log('hang', th.name, site)
                raise LibraryHang(th.name, site)
            raise HarnessError('non-yielding thread %s' % th.name)
        self.current = None

    def _yield(self, why):
        """Called by the running SimThread: hand the baton back and park."""
        th = self.current
        if th is None:
            raise HarnessError('blocking call (%s) in scheduler/rx context' % why)
        th.parked_at = why
        self.baton.release()
        th._go.acquire()
        if self.killing or th.kill_me:
            raise SimKilled()

    def _spin_yield(self, th):
        th.spin_slices += 1
        self.spin_events.append((th.name, self.now))
        if th.spin_slices >= SPIN_SLICES_KILL:
            self.livelocked.append(th.name)
            self.log('livelock', th.name)
            raise SimKilled()
        self.after(0, lambda: self._resume(th), 'spin-resume')
        self._yield('spin')
        th.reads = 0

    def preempt(self, hold_ns):
        th = self.current
        self.after(hold_ns, lambda: self._resume(th), 'preempt-resume')
        self._yield('preempt')

    def sleep(self, seconds):
        """Sleep for harness application threads."""
        th = self.current
        if th is None:
            raise HarnessError('sleep in scheduler context')
        self.after(int(seconds * 1e9) + 1, lambda: self._resume(th), 'sleep-resume')
        self._yield('sleep')
        th.spin_slices = 0

    def call_in_thread(self, fn, name='app-call', trace=None, defer=('op',)):
        """Run fn() in a fresh simulated thread, starting now, and let the simulation run on (nested) until it has returned;
        returns fn's result / raises its exception.  Used for application calls that are to be pre-empted inside the library
        (`trace` parks the thread at a source line): the job threads and reception go on meanwhile, while further application
        operations (events tagged as in `defer`) wait - one application thread issues its calls one after the other."""
        if self.current is not None:
            return fn()
        box = {}

        def body():
            try:
                box['r'] = fn()
            except SimKilled:
                raise
            except BaseException as e:      # noqa - handed to the caller
                box['e'] = e
        th = SimThread(self, target=body, name=name)
        th.trace = trace
        th.started = True
        th._real = _real_threading.Thread(target=th._bootstrap, name=name, daemon=True)
        th._real.start()
        self.app_calls_in_thread += 1
        self._resume(th)
        stash = []
        while not th.done and not th.dead:
            if not self.heap:
                if th.parked_at in ('queue.put', 'lock', 'queue.get', 'join'):
                    # nothing is left that could ever wake it: the call blocks for good inside the library
                    raise LibraryHang(name, 'blocked for ever in %s at %s' % (th.parked_at, _library_site(th) or '?'))
                raise HarnessError('application call never returned')
            if self.heap[0][3] in defer:
                stash.append(heapq.heappop(self.heap))
                continue
            self.step_depth += 1
            try:
                self._step()
            finally:
                self.step_depth -= 1
        for (t, seq, f, tag) in stash:
            heapq.heappush(self.heap, (max(t, self.now), seq, f, tag))
        if th.exc is not None:
            raise HarnessError('application call thread failed: %r' % (th.exc,))
        if 'e' in box:
            raise box['e']
        return box.get('r')

    def shutdown(self):
        global CURRENT
        self.killing = True
        for th in self.threads:
            if th.started and not th.done and not th.dead:
                self.current = th
                th._go.release()
                if not self.baton.acquire(timeout=10.0):
                    th.dead = True
                self.current = None
        for th in self.threads:
            if th._real is not None and not th.dead:
                th._real.join(timeout=5.0)
        if CURRENT is self:
            CURRENT = None


class SimThread:
    """threading.Thread look-alike: a real OS thread that only runs while it holds the baton."""

    def __init__(self, sim=None, group=None, target=None, name=None, args=(), kwargs=None, daemon=None):
        self.sim = sim or CURRENT
        if self.sim is None:
            raise HarnessError('SimThread without a Sim')
        self.target = target
        self.name = name or 'simthread-%d' % (len(self.sim.threads),)
        self.args = args
        self.kwargs = kwargs or {}
        self.daemon = True
        self._go = _real_threading.Semaphore(0)
        self._real = None
        self.started = False
        self.done = False
        self.dead = False
        self.kill_me = False
        self.exc = None
        self.reads = 0
        self.spin_slices = 0
        self.parked_at = None
        self.trace = None
        self.joiners = []
        self.sim.threads.append(self)

    def start(self):
        self.started = True
        self._real = _real_threading.Thread(target=self._bootstrap, name=self.name, daemon=True)
        self._real.start()
        sim = self.sim
        sim.after(sim.wake_latency(), lambda: sim._resume(self), 'thread-start')

    def _bootstrap(self):
        self._go.acquire()
        sim = self.sim
        try:
            if sim.killing:
                raise SimKilled()
            if self.trace is not None:
                sys.settrace(self.trace)
            self.target(*self.args, **self.kwargs)
        except SimKilled:
            pass
        except BaseException as e:  # noqa
            self.exc = e
            sim.log('thread-exc', self.name, type(e).__name__)
        finally:
            sys.settrace(None)
            self.done = True
            for j in self.joiners:
                sim.after(sim.wake_latency(), (lambda j=j: sim._resume(j)), 'join-wake')
            sim.baton.release()

    def is_alive(self):
        return self.started and not self.done

    @property
    def ident(self):
        return id(self) if self.started else None

    def join(self, timeout=None):
        sim = self.sim
        if self.done:
            return
        if sim.current is None:
            # scheduler context: run events until the thread has finished
            n = 0
            while not self.done and sim.heap:
                sim._step()
                n += 1
                if n > 100000:
                    raise HarnessError('join does not terminate')
            return
        self.joiners.append(sim.current)
        sim._yield('join')


class _Waiter:
    __slots__ = ('th', 'state')

    def __init__(self, th):
        self.th = th
        self.state = 'waiting'


class SimQueue:
    """queue.Queue look-alike whose blocking get parks the calling SimThread."""

    def __init__(self, maxsize=0):
        self.sim = CURRENT
        self.items = deque()
        self.waiters = []
        self.maxsize = maxsize
        self.put_waiters = []

    def qsize(self):
        return len(self.items)

    def empty(self):
        return not self.items

    def full(self):
        return self.maxsize > 0 and len(self.items) >= self.maxsize

    def put(self, item, block=True, timeout=None):
        sim = self.sim
        while self.maxsize > 0 and len(self.items) >= self.maxsize:
            # a bounded queue that is full: the caller blocks like with queue.Queue
            if not block:
                raise _real_queue.Full
            th = sim.current
            if th is None:
                # the thread feeding received frames in would block here for good (nobody else can run meanwhile in this model)
                raise LibraryHang('receiving/application context', 'Queue.put on a full queue (maxsize=%d)' % self.maxsize)
            expired = {'v': False}
            if timeout is not None:
                def fire_put(th=th):
                    if th in self.put_waiters:
                        self.put_waiters.remove(th)
                        expired['v'] = True
                        sim._resume(th)
                sim.after(int(timeout * 1e9) + 1 + sim.wake_latency(), fire_put, 'q-put-timeout')
            self.put_waiters.append(th)
            sim._yield('queue.put')
            if expired['v']:
                raise _real_queue.Full
        self.items.append(item)
        while self.waiters:
            w = self.waiters.pop(0)
            if w.state == 'waiting':
                w.state = 'waking'
                if sim.eager_wake and sim.rng.random() < sim.eager_wake:
                    # schedule fault: the woken thread runs at once and the waker is pre-empted right after its put()
                    sim.eager_wakes += 1
                    cur = sim.current
                    if cur is None:
                        sim._resume(w.th)
                    else:
                        sim.after(0, (lambda w=w: sim._resume(w.th) if w.state == 'waking' else None), 'q-wake-eager')
                        sim.after(0, (lambda cur=cur: sim._resume(cur)), 'waker-resume')
                        sim._yield('preempted-after-put')
                else:
                    sim.after(sim.wake_latency(), (lambda w=w: sim._resume(w.th) if w.state == 'waking' else None), 'q-wake')
                break

    def put_nowait(self, item):
        self.put(item)

    def get(self, block=True, timeout=None):
        sim = self.sim
        if self.items:
            return self._take()
        if not block:
            raise _real_queue.Empty
        if timeout is not None and timeout < 0:
            raise ValueError("'timeout' must be a non-negative number")
        th = sim.current
        if th is None:
            raise HarnessError('blocking Queue.get in scheduler/rx context')
        th.spin_slices = 0
        st = {'expired': False, 'w': None}
        if timeout is not None:
            def fire():
                st['expired'] = True
                w = st['w']
                if w is not None and w.state in ('waiting', 'waking'):
                    # (a wake-up by put() may already be on its way: the sleeper runs at the earlier of the two)
                    w.state = 'timedout'
                    if w in self.waiters:
                        self.waiters.remove(w)
                    sim._resume(w.th)
            sim.after(int(timeout * 1e9) + 1 + sim.wake_latency(), fire, 'q-timeout')
        while True:
            w = _Waiter(th)
            st['w'] = w
            self.waiters.append(w)
            try:
                sim._yield('queue.get')
            finally:
                st['w'] = None
                w.state = 'done'
            if self.items:
                return self._take()
            if st['expired']:
                raise _real_queue.Empty
            # woken by a put whose item someone else took: wait again

    def _take(self):
        item = self.items.popleft()
        if self.put_waiters:
            th = self.put_waiters.pop(0)
            self.sim.after(self.sim.wake_latency(), (lambda th=th: self.sim._resume(th)), 'q-put-wake')
        return item

    def get_nowait(self):
        return self.get(False)


# ------------------------------------------------------------------------------------ seam objects
class FakeTime:
    """Stands in for the `time` module inside the library's modules."""

    @staticmethod
    def time():
        return CURRENT.read_clock()

    @staticmethod
    def monotonic():
        return CURRENT.read_clock()

    @staticmethod
    def sleep(seconds):
        CURRENT.sleep(seconds)


class FakeQueueModule:
    Queue = SimQueue
    Empty = _real_queue.Empty
    Full = _real_queue.Full


class SimLock:
    """threading.Lock under the baton: a SimThread that finds the lock taken parks until it is released; a caller in scheduler
    context (an application call made from an event) lets the simulation run on, nested, until the holder has released it."""

    def __init__(self):
        self._locked = False
        self._waiters = []
        self._owner = None      # the SimThread that holds it (None: a caller in scheduler context)

    def acquire(self, blocking=True, timeout=-1):
        sim = CURRENT
        while self._locked:
            if not blocking:
                return False
            if self._owner is sim.current:
                # the same thread asks again for a lock that is not re-entrant (e.g. a frame handled inside the call that holds it): in a real
                # process this thread now waits for itself for ever
                fr = sys._getframe(1)
                site = ''
                repo = os.path.join(os.path.realpath(os.environ.get('VERIF_REPO', '/repo')), 'j1939') + os.sep
                while fr is not None and not site:
                    fn = os.path.realpath(fr.f_code.co_filename)
                    if fn.startswith(repo):
                        site = '%s:%s' % (os.path.basename(fn), fr.f_code.co_name)
                    fr = fr.f_back
                sim.log('self-deadlock', site)
                raise LibraryHang(sim.current.name if sim.current is not None else 'calling thread', 'self-deadlock on a non-reentrant lock at ' + (site or '?'))
            sim.lock_waits += 1
            cur = sim.current
            if cur is None:
                if not sim.heap:
                    raise HarnessError('lock is never released')
                sim.step_depth += 1
                try:
                    sim._step()
                finally:
                    sim.step_depth -= 1
            else:
                self._waiters.append(cur)
                sim._yield('lock')
        self._locked = True
        self._owner = sim.current
        return True

    def release(self):
        if not self._locked:
            raise RuntimeError('release unlocked lock')
        self._locked = False
        self._owner = None
        if self._waiters:
            th = self._waiters.pop(0)
            CURRENT.after(0, lambda: CURRENT._resume(th), 'lock-wake')

    def locked(self):
        return self._locked

    def __enter__(self):
        self.acquire()
        return True

    def __exit__(self, *a):
        self.release()


class FakeThreadingModule:
    Thread = SimThread
    Lock = SimLock
    RLock = _real_threading.RLock
    Event = _real_threading.Event

    @staticmethod
    def current_thread():
        # the simulated thread that is running (so that `current_thread() is self._job_thread` means what it means in a real process);
        # code running in scheduler context is the application / receiving thread
        sim = CURRENT
        if sim is not None and sim.current is not None:
            return sim.current
        return _real_threading.main_thread()

    @staticmethod
    def main_thread():
        return _real_threading.main_thread()

    @staticmethod
    def get_ident():
        sim = CURRENT
        if sim is not None and sim.current is not None:
            return id(sim.current)
        return _real_threading.main_thread().ident


class FakeSecrets:
    @staticmethod
    def randbits(k):
        return CURRENT.rng.getrandbits(k)
