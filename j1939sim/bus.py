"""Simulated CAN bus: serialising broadcast medium with per-receiver FIFO delivery, seeded latency
policies and a fault plan (drop, drop_rx, silence, dup).  Records every frame for wire-level oracles."""
import random

import can

from . import kernel


class Frame:
    __slots__ = ('seq', 't', 'src', 'can_id', 'ext', 'data', 'fd', 'dropped', 'remote', 'error')

    def __init__(self, seq, t, src, can_id, ext, data, fd, remote=False, error=False):
        self.seq = seq
        self.t = t
        self.src = src
        self.can_id = can_id
        self.ext = ext
        self.data = data
        self.fd = fd
        self.dropped = False
        self.remote = remote
        self.error = error

    def brief(self):
        return [self.seq, self.t, self.src, '%08X' % self.can_id, self.data.hex()]

    def __repr__(self):
        return 'F#%d t=%.6f %s %08X %s%s' % (self.seq, self.t / 1e9, self.src, self.can_id, self.data.hex(),
                                           ' DROPPED' if self.dropped else '')


class Port:
    """One attachment point.  `send` has the signature of ElectronicControlUnit.send_message."""

    def __init__(self, bus, name):
        self.bus = bus
        self.name = name
        self.deliver = None      # callable(Frame)
        self.last_delivery = 0   # FIFO floor (ns)
        self.rx_count = 0
        self.rx_log = []         # (t_ns, Frame) actually delivered to this port
        self.active = {}         # deliveries to this node in progress right now: token -> (nested-step depth, simulated thread or None)
        self.backlog = []        # frames that arrived while the node's receiving thread was blocked inside a handler

    def send(self, can_id, extended_id, data, fd_format=False):
        try:
            raw = bytes(bytearray(data))
        except (ValueError, TypeError) as e:
            raise kernel.IllegalFrame('frame %08X with data %r: %s' % (can_id, list(data)[:12], e))
        self.bus.send(self.name, can_id, extended_id, raw, fd_format)

    def bind_ecu(self, ecu, via='listener', exc_sink=None):
        """Deliver frames to a real ElectronicControlUnit.
        via='listener': through its own MessageListener (flag filter + exception containment are real);
        via='notify'  : straight into ecu.notify, exceptions are caught and given to exc_sink."""
        sim = self.bus.sim
        if via == 'listener':
            listener = ecu._listeners[0]

            def deliver(fr):
                msg = can.Message(arbitration_id=fr.can_id, is_extended_id=fr.ext, data=bytearray(fr.data),
                                  is_fd=fr.fd, timestamp=sim.now / 1e9, is_remote_frame=fr.remote,
                                  is_error_frame=fr.error, check=False)
                if fr.remote:
                    msg.dlc = len(fr.data)
                listener.on_message_received(msg)
        else:
            def deliver(fr):
                try:
                    ecu.notify(fr.can_id, bytearray(fr.data), sim.now / 1e9)
                except Exception as e:  # allowed by C07: raised to the caller that fed the frame in
                    if exc_sink is not None:
                        exc_sink(fr, e)
        self.deliver = deliver


class SimBus:
    def __init__(self, sim, latency=None, faults=None, seed=0):
        self.sim = sim
        self.rng = random.Random(seed ^ 0x5BD1E995)
        self.lat = latency or {'kind': 'const', 'ns': 100_000}
        self.faults = list(faults or [])
        self.ports = []
        self.byname = {}
        self.frames = []
        self.suppressed = []      # frames a silenced node tried to send
        self.silent = set()
        self.fired = {}           # fault kind -> count (counted when it actually fires)
        self.deliveries = 0
        self._tok = 0
        self.after_rx = []        # callables(Port, Frame) invoked right after a receiver has processed a frame (an application running at once)
        self.observers = []       # callables(Frame) invoked at send time (bus monitors; must not send)
        self.post_hooks = []      # callables(Frame) invoked at the end of send(), still inside the sender's call: the place for
                                  # nested application calls / reactive frames, so that what they send follows this frame on the bus

    def port(self, name):
        p = Port(self, name)
        self.ports.append(p)
        self.byname[name] = p
        return p

    def _fire(self, kind):
        self.fired[kind] = self.fired.get(kind, 0) + 1

    def _latency(self, receiver):
        lat = self.lat
        k = lat['kind']
        if k == 'zero':
            return 0
        if k == 'const':
            return lat['ns']
        if k == 'uniform':
            return self.rng.randint(lat.get('min_ns', 0), lat['max_ns'])
        if k == 'bimodal':
            return lat['ns'] if self.rng.random() < lat.get('p', 0.5) else lat.get('min_ns', 0)
        if k == 'skew':
            return lat['per'].get(receiver, lat.get('ns', 0))
        raise ValueError(k)

    def send(self, src, can_id, ext, data, fd=False, remote=False, error=False):
        sim = self.sim
        if sim.current is not None:
            sim.current.reads = 0      # putting a frame on the bus is progress, not a busy spin
        k = len(self.frames)
        dup = False
        drop = False
        drop_rx = set()
        for f in self.faults:
            if f.get('k') != k:
                continue
            kind = f['kind']
            if kind == 'silence':
                if f['node'] not in self.silent:
                    self.silent.add(f['node'])
                    self._fire('silence')
            elif kind == 'drop':
                drop = True
            elif kind == 'drop_rx':
                drop_rx.add(f['r'])
            elif kind == 'dup':
                dup = True
        fr = Frame(k, sim.now, src, can_id, ext, data, fd, remote, error)
        if src in self.silent:
            self.suppressed.append(fr)
            sim.log('tx-suppressed', src, can_id, data)
            return
        self.frames.append(fr)
        sim.log('tx', k, src, can_id, data)
        for ob in self.observers:
            ob(fr)
        if drop:
            fr.dropped = True
            self._fire('drop')
            for h in self.post_hooks:
                h(fr)
            return
        if dup:
            self._fire('dup')
        sync = self.lat['kind'] == 'zero'
        for p in self.ports:
            if p.name == src or p.deliver is None:
                continue
            if p.name in self.silent:
                continue
            if p.name in drop_rx:
                self._fire('drop_rx')
                continue
            for _ in range(2 if dup else 1):
                if sync:
                    self._deliver(p, fr)
                else:
                    t = max(sim.now + self._latency(p.name), p.last_delivery)
                    p.last_delivery = t
                    sim.at(t, (lambda p=p, fr=fr: self._deliver(p, fr)), 'rx')
        for h in self.post_hooks:
            h(fr)

    def send_sync(self, src, can_id, ext, data, fd=False):
        """Put a frame on the bus and deliver it synchronously (inside the caller's context) to every other port:
        a peer whose reply is processed before the stack's own send call has returned."""
        sim = self.sim
        fr = Frame(len(self.frames), sim.now, src, can_id, ext, data, fd)
        self.frames.append(fr)
        sim.log('tx-sync', fr.seq, src, can_id, data)
        for ob in self.observers:
            ob(fr)
        for p in self.ports:
            if p.name != src and p.deliver is not None and p.name not in self.silent:
                self._deliver(p, fr)
        for h in self.post_hooks:
            h(fr)

    def _deliver(self, p, fr):
        if p.name in self.silent:
            return
        if any(ctx is None and depth < self.sim.step_depth for (depth, ctx) in p.active.values()):
            # the thread that feeds frames into this node (a delivery event run by the scheduler) is still inside the handler of an earlier
            # frame - blocked, e.g. waiting for a lock - and this delivery comes from events run meanwhile: one receiving thread handles
            # frames one after the other.  (Deliveries that belong to the call chain of a simulated thread - a sender on a zero-latency
            # bus, a parked application call - are not the node's receiving thread and never hold anything back.)
            p.backlog.append(fr)
            return
        self.deliveries += 1
        p.rx_count += 1
        p.rx_log.append((self.sim.now, fr))
        self.sim.log('rx', p.name, fr.seq)
        self._tok += 1
        tok = self._tok
        p.active[tok] = (self.sim.step_depth, self.sim.current)
        try:
            p.deliver(fr)
            for h in self.after_rx:
                h(p, fr)
        finally:
            del p.active[tok]
        while p.backlog and not any(ctx is None and depth < self.sim.step_depth for (depth, ctx) in p.active.values()):
            self._deliver(p, p.backlog.pop(0))
