"""C01 - J1939-21 transport delivers every accepted message intact, exactly once."""
import copy

from .. import gen
from ..world import World, payload
from ..preempt import call_preempted
from . import common

ID = 'C01'
LEVEL = 'exploration'
BUDGET = {'quick': (12000, 80.0), 'thorough': (300000, 1500.0)}
RULE = ('seeded swarm generation of 2-4 real J1939-21 stacks, 1-8 messages on distinct (SA,DA) pairs submitted within 300 ms (plus, in some runs: a second parameter group or the same '
        'list object again on a pair, submissions from inside the stack\'s own k-th transmission or from the acknowledgement callback, and application calls parked at their k-th library '
        'source line inside send_pgn for 20 us .. 60 ms while job threads and reception run on); '
        'a run is non-trivial when at least one multi-packet transfer put frames on the bus; distinct = distinct scenario JSON')
FAULT_COUNTERS = {'application thread parked at a source line inside send_pgn (pre-emption)': 'preempted_calls', 'application send_pgn from inside the stack\'s own transmission': 'reentrant_submissions', "zero-latency bus: reply handled re-entrantly inside the sender's send call (runs)": 'zero_latency_runs'}
REQUIRED_PROBES = ['cmdt_msgs', 'bam_msgs', 'zero_latency_runs', 'len_mod7_zero', 'refused_busy_pair', 'accepted_same_pair', 'submitted_from_ack_callback', 'preempted_calls', 'shared_buffer_msgs']
DLL = 'j1939-21'


def generate(rng, tier, i):
    ns = rng.choice([2, 2, 3, 4])
    names = ['S%d' % k for k in range(ns)]
    ncas = [rng.choice([1, 1, 2]) for _ in range(ns)]
    addrs = gen.draw_addresses(rng, sum(ncas))
    stacks = []
    k = 0
    for si, n in enumerate(names):
        cas = [{'addr': addrs[k + c]} for c in range(ncas[si])]
        k += ncas[si]
        el = rng.choice([[], [None], [None], [cas[0]['addr']], [None, cas[-1]['addr']]])
        stacks.append({'name': n, 'dll': DLL, 'max_cmdt': rng.choice(gen.WINDOWS), 'cas': cas, 'ecu_listeners': el})
    scn = {'kernel': gen.draw_kernel(rng), 'latency': gen.draw_latency(rng, True, names), 'stacks': stacks}
    if rng.random() < 0.15:
        for s in stacks:
            s['rts_cts_interval'] = rng.choice([0.001, 0.005, 0.02])
    msgs = []
    used = set()
    window_us = rng.choice([0, 1000, 50_000, 300_000])
    for _ in range(rng.randint(1, 8)):
        si = rng.randrange(ns)
        ci = rng.randrange(ncas[si])
        sa = stacks[si]['cas'][ci]['addr']
        kind = rng.choice(['p2p', 'p2p', 'p2p', 'bam1', 'bam2'])
        if kind == 'p2p':
            others = [(sj, cj) for sj in range(ns) if sj != si for cj in range(ncas[sj])]
            sj, cj = rng.choice(others)
            pf, ps = rng.choice([0, 1, 0xD0, 0xD7, 0xEF, 0xC3, rng.randrange(0, 240)]), stacks[sj]['cas'][cj]['addr']
            if pf in (0xEA, 0xEB, 0xEC, 0xEE):
                pf = 0xD1
        elif kind == 'bam1':
            pf, ps = rng.choice([0, 0xD0, 0xEF, rng.randrange(0, 240)]), 255
            if pf in (0xEA, 0xEB, 0xEC, 0xEE):
                pf = 0xD1
        else:
            pf, ps = rng.choice([240, 254, 255, 0xFE]), rng.choice([0, 0xCA, 255, rng.randrange(256)])
        n = gen.len21(rng)
        da = ps if (pf < 240 and ps != 255) else 255
        if n > 8:
            if (sa, da) in used:
                continue
            used.add((sa, da))
        msgs.append({'at_us': rng.randint(0, window_us), 'stack': names[si], 'ca': ci, 'prio': rng.randrange(8),
                     'dp': rng.choice([0, 0, 1]), 'pf': pf, 'ps': ps, 'len': n, 'fill': rng.randrange(1 << 16)})
    # a second parameter group for an (SA,DA) pair that already has a multi-packet message: refused while the first is in
    # flight, accepted afterwards - whatever send_pgn accepts must arrive intact
    extra = []
    for m in msgs:
        if m['len'] > 8 and rng.random() < 0.15:
            e = dict(m, at_us=m['at_us'] + rng.choice([0, 100, 20_000, 150_000, 600_000]), fill=rng.randrange(1 << 16), len=gen.len21(rng), same_pair=True)
            if m['pf'] >= 240:
                e['ps'] = (m['ps'] + rng.choice([1, 7, 128])) & 0xFF
            elif m['ps'] == 255:
                e['pf'] = rng.choice([0x01, 0xD3, 0xEF])
            else:
                e['pf'] = rng.choice([0x01, 0xD3, 0xC3])
            extra.append(e)
            m['same_pair'] = True        # (either of the two may find the pair busy)
    # the application submits the next message from inside the end-of-message-acknowledgement callback of an earlier one
    for idx, m in enumerate(msgs):
        if m['len'] > 8 and m['pf'] < 240 and m['ps'] != 255 and rng.random() < 0.12:
            extra.append(dict(m, fill=rng.randrange(1 << 16), len=max(9, gen.len21(rng)), pf=rng.choice([m['pf'], 0xD4]), on_ack_of=idx, same_pair=True))
            m['same_pair'] = True
    # the application sends one list object twice: the same buffer again, to the same destination, 1.5 s later (the library must not
    # have changed it)
    for m in list(msgs):
        if m['len'] > 8 and m['len'] < 400 and rng.random() < 0.08:
            m['share'] = True
            m['same_pair'] = True
            extra.append(dict(m, at_us=m['at_us'] + 1_500_000))
    scn['msgs_plain'] = [dict(m) for m in msgs]
    msgs += extra
    scn['msgs'] = sorted(msgs, key=lambda m: (m.get('on_ack_of') is not None, m['at_us']))
    # some messages are submitted from inside the originating stack's own k-th transmission (an application thread running
    # at that instant, or a backend that calls back into the application)
    if len(scn['msgs']) > 1 and rng.random() < 0.3:
        for m in rng.sample(scn['msgs'][1:], min(len(scn['msgs']) - 1, rng.randint(1, 2))):
            # (not for messages that share their (SA,DA) pair with another one: two calls for one pair at the very same
            #  instant are outside the property, which speaks of concurrent submissions on different pairs)
            if m.get('on_ack_of') is None and not m.get('same_pair'):
                m['on_tx'] = rng.choice([0, 1, 2, 3, 4, 6, 9, rng.randrange(0, 60)])
    # pre-emption of the application thread inside send_pgn: parked at its k-th library source line for a while
    if rng.random() < 0.25:
        plain = [m for m in scn['msgs'] if m.get('on_tx') is None and m.get('on_ack_of') is None]
        for m in rng.sample(plain, min(len(plain), rng.randint(1, 3))):
            m['pre'] = {'k': rng.randint(1, 80), 'hold_us': rng.choice([20, 300, 3000, 60000])}
    return scn


def execute(scn, keep_log=False, hook=None):
    w = World(scn, keep_log=keep_log)
    sim = w.sim
    exp, extra, meta = common.Counter(), common.Counter(), {}
    viol = []
    stats = {'preempted_calls': 0, 'shared_buffer_msgs': 0, 'cmdt_msgs': 0, 'bam_msgs': 0, 'single_msgs': 0, 'zero_latency_runs': int(scn['latency']['kind'] == 'zero'),
             'len_mod7_zero': 0, 'window_255': 0, 'reentrant_submissions': 0, 'refused_busy_pair': 0, 'accepted_same_pair': 0,
             'submitted_from_ack_callback': 0}
    states = set()
    t0 = sim.now
    sim.run_for(0.02)       # let the job threads start and park

    def submit(m):
        st = w.stacks[m['stack']]
        data = payload(m['fill'], m['len'])
        pre = m.get('pre') if sim.current is None and not held else None
        if pre:
            # the application thread is parked at its k-th source line inside send_pgn; job threads and reception run on, and with them
            # the submissions made from their callbacks (nested in a transmission, from the acknowledgement callback) - a second thread
            # inside send_pgn, for another (SA,DA) pair; submissions for the pair of the parked call wait until it has returned
            held.append(pair_key(m))
        try:
            buf = bufs.setdefault((m['fill'], m['len']), list(data)) if m.get('share') else list(data)
            if m.get('share'):
                stats['shared_buffer_msgs'] += 1
            ok, tr = call_preempted(sim, (lambda: st.cas[m['ca']].send_pgn(m['dp'], m['pf'], m['ps'], m['prio'], buf)), pre)
        finally:
            if pre:
                held.pop()
        if tr is not None and tr.fired:
            stats['preempted_calls'] += 1
        if pre:
            for later in list(deferred):
                deferred.remove(later)
                later()
        mode = common.msg_mode(st.cfg, m)
        stats[{'cmdt': 'cmdt_msgs', 'bam': 'bam_msgs', 'single': 'single_msgs'}[mode]] += 1
        if m['len'] > 8 and m['len'] % 7 == 0:
            stats['len_mod7_zero'] += 1
        if ok is not True:
            if m.get('same_pair') and ok is False:
                stats['refused_busy_pair'] += 1      # allowed: an earlier message on this pair may still be in progress
                return
            viol.append({'clause': 'send-refused', 'rank': 2, 'msg': 'send_pgn returned %r for a message on a free (SA,DA) pair' % (ok,),
                         'feat': {'mode': mode}})
            return
        if m.get('same_pair'):
            stats['accepted_same_pair'] += 1
        e, x = common.expected_deliveries(scn, m, data, meta)
        exp.update(e)
        extra.update(x)

    base = sim.now
    txcount = {}
    nest = [0]
    held = []       # (stack, CA, destination) of the application call that is parked inside send_pgn right now

    def pair_key(m):
        return (m['stack'], m['ca'], common.msg_dest(m))
    deferred = []
    bufs = {}
    pending_on_tx = [m for m in scn['msgs'] if m.get('on_tx') is not None]

    def on_tx(fr):
        k = txcount.get(fr.src, 0)
        txcount[fr.src] = k + 1
        if nest[0]:
            return
        for m in list(pending_on_tx):
            if m['stack'] == fr.src and m['on_tx'] == k and pair_key(m) not in held:
                pending_on_tx.remove(m)
                nest[0] += 1
                try:
                    stats['reentrant_submissions'] += 1
                    submit(m)
                finally:
                    nest[0] -= 1
    w.bus.post_hooks.append(on_tx)
    pending_on_ack = [m for m in scn['msgs'] if m.get('on_ack_of') is not None]

    def on_delivery(stack, lid, pgn, sa, d):
        # the originator's CA listener sees the end-of-message acknowledgement (8 bytes, control byte 19) of message i
        if not d or len(d) != 8 or d[0] != 19 or not lid.startswith('ca'):
            return
        for m in list(pending_on_ack):
            src = scn['msgs_plain'][m['on_ack_of']]
            if stack == src['stack'] and lid == 'ca%d' % src['ca'] and sa == src['ps'] and pgn == common.rc.sae_pgn(src['dp'], src['pf'], src['ps']):
                pending_on_ack.remove(m)
                stats['submitted_from_ack_callback'] += 1
                if pair_key(m) in held:
                    deferred.append(lambda m=m: submit(m))
                else:
                    submit(m)
    w.delivery_hooks.append(on_delivery)
    for m in scn['msgs']:
        if m.get('on_tx') is None and m.get('on_ack_of') is None:
            sim.at(base + m['at_us'] * 1000, (lambda m=m: submit(m)), 'op')
    if hook:
        hook(w)
    longest = max([m['len'] for m in scn['msgs']] + [0])
    last_at_ns = max([m['at_us'] for m in scn['msgs']] + [0]) * 1000
    cap = 2.0 + (longest / 7.0) * 0.06 * 2 + 0.4 + last_at_ns / 1e9
    # sample abstract states while settling
    for _ in range(int(cap / 0.05) + 1):
        sim.run_for(0.05)
        states.add(common.abstract_state(w))
        if sim.now - base > max(400_000_000, last_at_ns + 50_000_000) and not common.busy(w):
            break
    sim.run_for(0.05)
    tv = common.thread_violations(w)
    viol += tv
    viol += common.compare_deliveries(w, exp, extra, meta=meta)
    viol += common.idle_violations(w)
    multi = stats['cmdt_msgs'] + stats['bam_msgs']
    for s in scn['stacks']:
        if s['max_cmdt'] == 255:
            stats['window_255'] += 1
    res = {'violations': viol, 'stats': dict(stats, frames=len(w.bus.frames), deliveries=len(w.deliveries)),
           'nontrivial': multi > 0 and len(w.bus.frames) > 2, 'digest': sim.digest(), 'sim_s': (sim.now - t0) / 1e9,
           'states': states, 'summary': '%d msgs, %d frames, %d deliveries' % (len(scn['msgs']), len(w.bus.frames), len(w.deliveries))}
    if keep_log:
        res['log'] = sim.logbuf
    w.close()
    return res


def features(scn, v):
    return {'dll': DLL}


def shrink(scn):
    for c in gen.drop_each(scn, 'msgs', 1):
        yield c      # (msgs_plain keeps the originals, so on_ack_of indices stay valid; an orphaned on_ack message is simply never submitted)
    used = {m['stack'] for m in scn['msgs']}
    dests = {common.msg_dest(m) for m in scn['msgs']}
    for i, s in enumerate(scn['stacks']):
        if s['name'] not in used and not any(c['addr'] in dests for c in s['cas']) and len(scn['stacks']) > 2:
            c = copy.deepcopy(scn)
            del c['stacks'][i]
            yield c
    yield from gen.simplify_env(scn)
    for i, m in enumerate(scn['msgs']):
        for n in gen.shrink_int(m['len'], [9, 14, 15, 16, 21]):
            if (n > 8) == (m['len'] > 8):
                c = copy.deepcopy(scn)
                c['msgs'][i]['len'] = n
                yield c
        if m['at_us']:
            c = copy.deepcopy(scn)
            c['msgs'][i]['at_us'] = 0
            yield c
        if m.get('on_tx') is not None:
            c = copy.deepcopy(scn)
            del c['msgs'][i]['on_tx']
            yield c
    for i, s in enumerate(scn['stacks']):
        if s['max_cmdt'] != 1:
            c = copy.deepcopy(scn)
            c['stacks'][i]['max_cmdt'] = 1
            yield c
        if s.get('ecu_listeners'):
            c = copy.deepcopy(scn)
            c['stacks'][i]['ecu_listeners'] = []
            yield c
        if s.get('rts_cts_interval') is not None:
            c = copy.deepcopy(scn)
            c['stacks'][i]['rts_cts_interval'] = None
            yield c
