"""C01 - J1939-21 transport delivers every accepted message intact, exactly once."""
import copy

from .. import gen
from ..world import World, payload
from . import common

ID = 'C01'
LEVEL = 'exploration'
BUDGET = {'quick': (12000, 80.0), 'thorough': (300000, 1500.0)}
RULE = ('seeded swarm generation of 2-4 real J1939-21 stacks, 1-8 messages on distinct (SA,DA) pairs submitted within 300 ms; '
        'a run is non-trivial when at least one multi-packet transfer put frames on the bus; distinct = distinct scenario JSON')
FAULT_COUNTERS = {'application send_pgn from inside the stack\'s own transmission': 'reentrant_submissions', "zero-latency bus: reply handled re-entrantly inside the sender's send call (runs)": 'zero_latency_runs'}
REQUIRED_PROBES = ['cmdt_msgs', 'bam_msgs', 'zero_latency_runs', 'len_mod7_zero']
DLL = 'j1939-21'


def generate(rng, tier, i):
    ns = rng.choice([2, 2, 3, 4])
    names = ['S%d' % k for k in range(ns)]
    ncas = [rng.choice([1, 1, 2]) for _ in range(ns)]
    addrs = gen.draw_addresses(rng, sum(ncas))
    stacks = []
    k = 0
    for si, n in enumerate(names):
        cas = [{'addr': addrs[k + c]} for c in range(ncas[si])]
        k += ncas[si]
        el = rng.choice([[], [None], [None], [cas[0]['addr']], [None, cas[-1]['addr']]])
        stacks.append({'name': n, 'dll': DLL, 'max_cmdt': rng.choice(gen.WINDOWS), 'cas': cas, 'ecu_listeners': el})
    scn = {'kernel': gen.draw_kernel(rng), 'latency': gen.draw_latency(rng, True, names), 'stacks': stacks}
    if rng.random() < 0.15:
        for s in stacks:
            s['rts_cts_interval'] = rng.choice([0.001, 0.005, 0.02])
    msgs = []
    used = set()
    window_us = rng.choice([0, 1000, 50_000, 300_000])
    for _ in range(rng.randint(1, 8)):
        si = rng.randrange(ns)
        ci = rng.randrange(ncas[si])
        sa = stacks[si]['cas'][ci]['addr']
        kind = rng.choice(['p2p', 'p2p', 'p2p', 'bam1', 'bam2'])
        if kind == 'p2p':
            others = [(sj, cj) for sj in range(ns) if sj != si for cj in range(ncas[sj])]
            sj, cj = rng.choice(others)
            pf, ps = rng.choice([0, 1, 0xD0, 0xD7, 0xEF, 0xC3, rng.randrange(0, 240)]), stacks[sj]['cas'][cj]['addr']
            if pf in (0xEA, 0xEB, 0xEC, 0xEE):
                pf = 0xD1
        elif kind == 'bam1':
            pf, ps = rng.choice([0, 0xD0, 0xEF, rng.randrange(0, 240)]), 255
            if pf in (0xEA, 0xEB, 0xEC, 0xEE):
                pf = 0xD1
        else:
            pf, ps = rng.choice([240, 254, 255, 0xFE]), rng.choice([0, 0xCA, 255, rng.randrange(256)])
        n = gen.len21(rng)
        da = ps if (pf < 240 and ps != 255) else 255
        if n > 8:
            if (sa, da) in used:
                continue
            used.add((sa, da))
        msgs.append({'at_us': rng.randint(0, window_us), 'stack': names[si], 'ca': ci, 'prio': rng.randrange(8),
                     'dp': rng.choice([0, 0, 1]), 'pf': pf, 'ps': ps, 'len': n, 'fill': rng.randrange(1 << 16)})
    scn['msgs'] = sorted(msgs, key=lambda m: m['at_us'])
    # some messages are submitted from inside the originating stack's own k-th transmission (an application thread running
    # at that instant, or a backend that calls back into the application)
    if len(scn['msgs']) > 1 and rng.random() < 0.3:
        for m in rng.sample(scn['msgs'][1:], min(len(scn['msgs']) - 1, rng.randint(1, 2))):
            m['on_tx'] = rng.choice([0, 1, 2, 3, 4, 6, 9, rng.randrange(0, 60)])
    return scn


def execute(scn, keep_log=False, hook=None):
    w = World(scn, keep_log=keep_log)
    sim = w.sim
    exp, extra, meta = common.Counter(), common.Counter(), {}
    viol = []
    stats = {'cmdt_msgs': 0, 'bam_msgs': 0, 'single_msgs': 0, 'zero_latency_runs': int(scn['latency']['kind'] == 'zero'),
             'len_mod7_zero': 0, 'window_255': 0, 'reentrant_submissions': 0}
    states = set()
    t0 = sim.now
    sim.run_for(0.02)       # let the job threads start and park

    def submit(m):
        st = w.stacks[m['stack']]
        data = payload(m['fill'], m['len'])
        ok = st.cas[m['ca']].send_pgn(m['dp'], m['pf'], m['ps'], m['prio'], list(data))
        mode = common.msg_mode(st.cfg, m)
        stats[{'cmdt': 'cmdt_msgs', 'bam': 'bam_msgs', 'single': 'single_msgs'}[mode]] += 1
        if m['len'] > 8 and m['len'] % 7 == 0:
            stats['len_mod7_zero'] += 1
        if ok is not True:
            viol.append({'clause': 'send-refused', 'rank': 2, 'msg': 'send_pgn returned %r for a message on a free (SA,DA) pair' % (ok,),
                         'feat': {'mode': mode}})
            return
        e, x = common.expected_deliveries(scn, m, data, meta)
        exp.update(e)
        extra.update(x)

    base = sim.now
    txcount = {}
    nest = [0]
    pending_on_tx = [m for m in scn['msgs'] if m.get('on_tx') is not None]

    def on_tx(fr):
        k = txcount.get(fr.src, 0)
        txcount[fr.src] = k + 1
        if nest[0]:
            return
        for m in list(pending_on_tx):
            if m['stack'] == fr.src and m['on_tx'] == k:
                pending_on_tx.remove(m)
                nest[0] += 1
                try:
                    stats['reentrant_submissions'] += 1
                    submit(m)
                finally:
                    nest[0] -= 1
    w.bus.observers.append(on_tx)
    for m in scn['msgs']:
        if m.get('on_tx') is None:
            sim.at(base + m['at_us'] * 1000, (lambda m=m: submit(m)), 'op')
    if hook:
        hook(w)
    longest = max([m['len'] for m in scn['msgs']] + [0])
    cap = 2.0 + (longest / 7.0) * 0.06 + 0.4
    # sample abstract states while settling
    for _ in range(int(cap / 0.05) + 1):
        sim.run_for(0.05)
        states.add(common.abstract_state(w))
        if sim.now - base > 400_000_000 and not common.busy(w):
            break
    sim.run_for(0.05)
    tv = common.thread_violations(w)
    viol += tv
    viol += common.compare_deliveries(w, exp, extra, meta=meta)
    viol += common.idle_violations(w)
    multi = stats['cmdt_msgs'] + stats['bam_msgs']
    for s in scn['stacks']:
        if s['max_cmdt'] == 255:
            stats['window_255'] += 1
    res = {'violations': viol, 'stats': dict(stats, frames=len(w.bus.frames), deliveries=len(w.deliveries)),
           'nontrivial': multi > 0 and len(w.bus.frames) > 2, 'digest': sim.digest(), 'sim_s': (sim.now - t0) / 1e9,
           'states': states, 'summary': '%d msgs, %d frames, %d deliveries' % (len(scn['msgs']), len(w.bus.frames), len(w.deliveries))}
    if keep_log:
        res['log'] = sim.logbuf
    w.close()
    return res


def features(scn, v):
    return {'dll': DLL}


def shrink(scn):
    yield from gen.drop_each(scn, 'msgs', 1)
    used = {m['stack'] for m in scn['msgs']}
    dests = {common.msg_dest(m) for m in scn['msgs']}
    for i, s in enumerate(scn['stacks']):
        if s['name'] not in used and not any(c['addr'] in dests for c in s['cas']) and len(scn['stacks']) > 2:
            c = copy.deepcopy(scn)
            del c['stacks'][i]
            yield c
    yield from gen.simplify_env(scn)
    for i, m in enumerate(scn['msgs']):
        for n in gen.shrink_int(m['len'], [9, 14, 15, 16, 21]):
            if (n > 8) == (m['len'] > 8):
                c = copy.deepcopy(scn)
                c['msgs'][i]['len'] = n
                yield c
        if m['at_us']:
            c = copy.deepcopy(scn)
            c['msgs'][i]['at_us'] = 0
            yield c
        if m.get('on_tx') is not None:
            c = copy.deepcopy(scn)
            del c['msgs'][i]['on_tx']
            yield c
    for i, s in enumerate(scn['stacks']):
        if s['max_cmdt'] != 1:
            c = copy.deepcopy(scn)
            c['stacks'][i]['max_cmdt'] = 1
            yield c
        if s.get('ecu_listeners'):
            c = copy.deepcopy(scn)
            c['stacks'][i]['ecu_listeners'] = []
            yield c
        if s.get('rts_cts_interval') is not None:
            c = copy.deepcopy(scn)
            c['stacks'][i]['rts_cts_interval'] = None
            yield c
