"""C04 - address claiming yields unique addresses; the lowest NAME keeps a contested one."""
import copy

from .. import gen, refcodec as rc
from ..world import World
from . import common

ID = 'C04'
LEVEL = 'exploration'
BUDGET = {'quick': (40000, 80.0), 'thorough': (600000, 1500.0)}
RULE = ('2-4 real CAs on separate stacks with distinct 64-bit NAMEs (unrelated, small, or siblings differing in one NAME field; all orderings relative to start order), each arbitrary-address-capable or not, preferred '
        'addresses equal / adjacent / distinct in the immediate and veto ranges, start instants and claim delays on the grid {0,10,240,249,250,251,260,490,500,510,750 ms, '
        'random}, latency policies in [0, 5 ms] incl. synchronous delivery; invariants are evaluated on final CA states and the bus record. non-trivial = at least two '
        'CAs announced the same address; distinct = distinct scenario JSON')
FAULT_COUNTERS = {'contended addresses (two or more CAs announced the same address)': 'contended_addresses', 'zero-latency bus (runs)': 'zero_latency_runs'}
REQUIRED_PROBES = ['contended_addresses', 'cannot_claim_outcomes', 'moves', 'zero_latency_runs', 'veto_range_runs']
GRID_MS = [0, 0, 10, 240, 249, 250, 251, 260, 490, 500, 510, 750]
STATE = {0: 'NONE', 1: 'WAIT_VETO', 2: 'NORMAL', 3: 'CANNOT_CLAIM'}


def generate(rng, tier, i):
    n = rng.choice([2, 2, 3, 4])
    names = ['S%d' % k for k in range(n)]
    # NAMEs: distinct 64-bit values; AAC is bit 63
    vals = set()
    cas = []
    rangekind = rng.choice(['imm', 'veto', 'veto', 'mix', 'high'])
    if rangekind == 'imm':
        base = rng.randrange(0, 120)
    elif rangekind == 'veto':
        base = rng.randrange(128, 247 - n)
    elif rangekind == 'high':
        base = 248
    else:
        base = rng.choice([126, 127, 125])
    relation = rng.choice(['equal', 'equal', 'adjacent', 'mixed'])
    # NAME relation: unrelated values, small values, or siblings that differ in a single NAME field only (identity number, manufacturer
    # code, ECU instance, function instance, function, vehicle system, vehicle system instance, industry group)
    sibling = rng.random() < 0.35
    common_name = rng.getrandbits(63)
    lo, width = rng.choice([(0, 21), (0, 21), (21, 11), (21, 11), (32, 3), (35, 5), (40, 8), (49, 7), (56, 4), (60, 3)])
    for k in range(n):
        while True:
            if sibling:
                body = (common_name & ~(((1 << width) - 1) << lo)) | (rng.choice([0, 1, (1 << width) - 1, 1 << (width - 1), rng.getrandbits(width)]) << lo)
            else:
                body = rng.getrandbits(63) if rng.random() < 0.7 else rng.choice([0, 1, 2, (1 << 63) - 1, (1 << 21), 1 << 32]) + rng.randrange(4)
            body &= ~(1 << 48)          # reserved bit reads 0
            aac = rng.random() < 0.55
            v = (body & ((1 << 63) - 1)) | (int(aac) << 63)
            if v not in vals:
                vals.add(v)
                break
        if relation == 'equal':
            addr = base
        elif relation == 'adjacent':
            addr = base + rng.choice([0, 0, 1])
        else:
            addr = base + rng.choice([0, 0, 1, 2])
        start = rng.choice(GRID_MS) if rng.random() < 0.8 else rng.randrange(0, 800)
        delay = rng.choice(GRID_MS) if rng.random() < 0.8 else rng.randrange(0, 800)
        cas.append({'stack': names[k], 'name': v, 'addr': addr, 'start_ms': start, 'delay_ms': delay})
    stacks = [{'name': c['stack'], 'dll': rng.choice(['j1939-21', 'j1939-21', 'j1939-22']) if k == 0 else None, 'max_cmdt': 1,
               'cas': [{'addr': c['addr'], 'name': c['name'], 'bypass': False}]} for k, c in enumerate(cas)]
    for s in stacks:
        s['dll'] = stacks[0]['dll']
    scn = {'kernel': gen.draw_kernel(rng), 'latency': gen.draw_latency(rng, True, names), 'stacks': stacks, 'claims': cas}
    return scn


def execute(scn, keep_log=False, hook=None):
    w = World(scn, keep_log=keep_log)
    sim, bus = w.sim, w.bus
    viol = []
    stats = {'contended_addresses': 0, 'cannot_claim_outcomes': 0, 'moves': 0, 'zero_latency_runs': int(scn['latency']['kind'] == 'zero'),
             'veto_range_runs': int(any(128 <= c['addr'] <= 247 for c in scn['claims']))}
    t0 = sim.now
    sim.run_for(0.01)
    base = sim.now
    cas = {}
    for c in scn['claims']:
        ca = w.stacks[c['stack']].cas[0]
        cas[c['stack']] = ca
        sim.at(base + c['start_ms'] * 1_000_000, (lambda ca=ca, c=c: ca.start(c['delay_ms'] / 1000.0)), 'op')
    n = len(scn['claims'])
    t_last = max(c['start_ms'] + c['delay_ms'] for c in scn['claims']) / 1000.0
    bound = t_last + 0.25 + 0.5 * (n + 2) + 1.0
    sim.run_until(base + int(bound * 1e9))
    viol += common.thread_violations(w)

    def snapshot():
        return {k: (ca.state, ca.device_address) for k, ca in cas.items()}

    def judge(tag):
        v = []
        snap = snapshot()
        names = {c['stack']: c['name'] for c in scn['claims']}
        aac = {c['stack']: bool(c['name'] >> 63) for c in scn['claims']}
        pref = {c['stack']: c['addr'] for c in scn['claims']}
        # 1 settled
        for k, (st, adr) in snap.items():
            if st not in (2, 3):
                v.append({'clause': 'not-settled', 'rank': 3, 'msg': '%sCA on %s is still %s %.2f s after the last claim started' % (tag, k, STATE.get(st, st), bound - t_last)})
        # 2 unique
        held = {}
        for k, (st, adr) in snap.items():
            if st == 2:
                held.setdefault(adr, []).append(k)
        for adr, ks in held.items():
            if len(ks) > 1:
                v.append({'clause': 'duplicate-address', 'rank': 1, 'msg': '%saddress %d is held by %s at quiescence' % (tag, adr, ', '.join(ks))})
        # announcers per address from the bus record (address-claimed frames, SA != 254)
        ann = {}
        cannot = set()
        for fr in bus.frames:
            i = rc.Id(fr.can_id)
            if i.pf == rc.PF_ADDRESS_CLAIM and i.ps == 255 and len(fr.data) == 8:
                nv = rc.name_value(fr.data)
                if i.sa == 254:
                    cannot.add(nv)
                else:
                    ann.setdefault(i.sa, set()).add(nv)
        byname = {v_: k for k, v_ in names.items()}
        for adr, nvs in ann.items():
            if len(nvs) > 1:
                low = min(nvs)
                k = byname.get(low)
                if k is not None and snap[k] != (2, adr):
                    v.append({'clause': 'lowest-name-lost', 'rank': 1,
                              'msg': '%saddress %d was announced by %d CAs; the lowest NAME (%s, %016X) ended %s at %s' % (
                                  tag, adr, len(nvs), k, low, STATE.get(snap[k][0]), snap[k][1])})
        # 4 losers
        for adr, nvs in ann.items():
            for nv in nvs:
                k = byname.get(nv)
                if k is None or snap[k] == (2, adr):
                    continue
                # k announced adr but does not hold it: a loser at adr
                st, cur = snap[k]
                if not aac[k]:
                    if st != 3:
                        v.append({'clause': 'fixed-loser-not-cannot-claim', 'rank': 2,
                                  'msg': '%snon-AAC CA %s lost address %d but ended %s at %s' % (tag, k, adr, STATE.get(st), cur)})
                    elif nv not in cannot:
                        v.append({'clause': 'no-cannot-claim-announcement', 'rank': 2, 'msg': '%snon-AAC CA %s lost address %d without announcing cannot-claim from 254' % (tag, k, adr)})
                else:
                    if st != 2 or cur == adr:
                        v.append({'clause': 'aac-loser-did-not-reclaim', 'rank': 2, 'msg': '%sAAC CA %s lost address %d and ended %s at %s' % (tag, k, adr, STATE.get(st), cur)})
        # a CA whose preferred address nobody else ever announced is the only (hence lowest) contender for it
        for k, (st, adr) in snap.items():
            if ann.get(pref[k]) == {names[k]} and (st, adr) != (2, pref[k]):
                v.append({'clause': 'unchallenged-ca-lost-address', 'rank': 2,
                          'msg': '%sCA %s was the only one to announce address %d but ended %s at %s' % (tag, k, pref[k], STATE.get(st), adr)})
        for k, (st, adr) in snap.items():
            if not aac[k] and st == 2 and adr != pref[k]:
                v.append({'clause': 'fixed-ca-moved', 'rank': 2, 'msg': '%snon-AAC CA %s holds %d, preferred %d' % (tag, k, adr, pref[k])})
        return v, snap, ann
    v1, snap1, ann = judge('')
    viol += v1
    stats['contended_addresses'] = sum(1 for nvs in ann.values() if len(nvs) > 1)
    stats['cannot_claim_outcomes'] = sum(1 for (st, a) in snap1.values() if st == 3)
    stats['moves'] = sum(1 for c in scn['claims'] if snap1[c['stack']][0] == 2 and snap1[c['stack']][1] != c['addr'])
    nframes = len(bus.frames)
    sim.run_for(2.0)
    if not viol:
        v2, snap2, _ = judge('2 s later: ')
        viol += v2
        if not v2 and snap2 != snap1:
            viol.append({'clause': 'unstable', 'rank': 3, 'msg': 'CA states changed after quiescence: %s -> %s' % (snap1, snap2)})
        if not viol and len(bus.frames) != nframes:
            viol.append({'clause': 'not-quiet', 'rank': 4, 'msg': '%d further frames after the settle bound' % (len(bus.frames) - nframes)})
        viol += common.thread_violations(w) if not viol else []
    aacs = {c['stack']: bool(c['name'] >> 63) for c in scn['claims']}
    order = sorted(scn['claims'], key=lambda c: c['name'])
    states = {repr(tuple((aacs[c['stack']], STATE.get(snap1[c['stack']][0]), (snap1[c['stack']][1] or 0) - c['addr'] if snap1[c['stack']][0] == 2 else None) for c in order))}
    res = {'violations': viol[:5], 'stats': dict(stats, frames=len(bus.frames)), 'nontrivial': stats['contended_addresses'] > 0, 'states': states,
           'digest': sim.digest(), 'sim_s': (sim.now - t0) / 1e9,
           'summary': '%d CAs, final %s' % (n, {k: (STATE.get(s), a) for k, (s, a) in snap1.items()})}
    if keep_log:
        res['log'] = sim.logbuf
    w.close()
    return res


def features(scn, v):
    return {'zero_latency': scn['latency']['kind'] == 'zero'}


def shrink(scn):
    if len(scn['claims']) > 2:
        for i in range(len(scn['claims'])):
            c = copy.deepcopy(scn)
            del c['claims'][i]
            del c['stacks'][i]
            yield c
    yield from gen.simplify_env(scn)
    for i, cl in enumerate(scn['claims']):
        for key in ('start_ms', 'delay_ms'):
            if cl[key]:
                c = copy.deepcopy(scn)
                c['claims'][i][key] = 0
                yield c
