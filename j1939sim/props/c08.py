"""C08 - transfer outcome does not depend on where reception pre-empts the job thread."""
import copy

from .. import gen, refcodec as rc
from ..preempt import Tracer
from ..world import World, payload
from . import common

ID = 'C08'
LEVEL = 'fault_enumeration'
BUDGET = {'quick': (3000, 80.0), 'thorough': (60000, 1500.0)}
CHUNK = 40
RULE = ('enumeration: for each shape (RTS/CTS windows 1, 2, all, asymmetric 255/2, paced with a 1 ms packet interval, chained transfers submitted from the receive callback, and BAM; J1939-21 and -22; 3-5 packets) a traced clean run lists every source-line '
        'event executed by each stack\'s job thread during the transfer; then one run per (stack, file, line, n-th hit) parks that thread there for '
        '0.2 / 1 / 5 ms of bus time (cycled over the points in quick, all three in thorough) while frame reception on the same stack continues. '
        'Sampled runs draw two pre-emption points, random sizes, windows and latencies in (0, 1 ms]. non-trivial = the chosen pre-emption fired; '
        'distinct = distinct scenario JSON')
FAULT_COUNTERS = {'stall: job thread parked at a source line while reception continues (runs)': 'preempt_fired_runs', 'frames received while the job thread was parked': 'rx_while_parked'}
REQUIRED_PROBES = ['preempt_fired_runs', 'rx_while_parked']
O_ADDR, R_ADDR = 0x11, 0x22
HOLDS_US = [200, 1000, 5000]


def base_scn(dll, mode, win, npk=5, lat=None, length=None):
    per = 7 if dll == 'j1939-21' else 60
    return {'kernel': {'read_cost_ns': 1000, 'lmax_ns': 20_000}, 'latency': lat or {'kind': 'uniform', 'min_ns': 1000, 'max_ns': 400_000},
            'stacks': [{'name': 'O', 'dll': dll, 'max_cmdt': win, 'cas': [{'addr': O_ADDR}]},
                       {'name': 'R', 'dll': dll, 'max_cmdt': win, 'cas': [{'addr': R_ADDR}]}],
            'mode': mode, 'len': length or (per * npk - 2), 'fill': 9, 'preempt': []}


def shapes():
    out = []
    for dll in ('j1939-21', 'j1939-22'):
        for win in (1, 2, 255):
            out.append(base_scn(dll, 'cmdt', win))
        out.append(base_scn(dll, 'bam', 1, npk=3))
        # asymmetric windows (the responder's setting limits the burst) and paced connection-mode packets
        a = base_scn(dll, 'cmdt', 255)
        a['stacks'][1]['max_cmdt'] = 2
        out.append(a)
        b = base_scn(dll, 'cmdt', 3, npk=4)
        for st in b['stacks']:
            st['rts_cts_interval'] = 0.001
        out.append(b)
        # chained transfers: on delivery the receiving application pulls the next message with a single frame, and the
        # originating application submits it from its receive callback (i.e. from the thread that feeds frames in)
        for delay_us in (0, 500):
            c = base_scn(dll, 'cmdt', 255, npk=3)
            c['chain'] = True
            c['pull_delay_us'] = delay_us     # 0: the pull overtakes the acknowledgement (J1939-22) / follows it directly; 500: it arrives a little later
            out.append(c)
    return out


def record_points(scn):
    c = copy.deepcopy(scn)
    c['preempt'] = []
    c['record'] = True
    c.setdefault('seed', 1)
    r = execute(c)
    return r['points']


def enumerate_cases(tier, master):
    cases = []
    idx = 0
    for sh in shapes():
        sh = copy.deepcopy(sh)
        sh['seed'] = 12345
        pts = record_points(sh)
        for stack, plist in sorted(pts.items()):
            for (f, line, n) in plist:
                # (chained shapes: what matters is whether the follow-up submission falls into the hold, so every hold time is tried)
                holds = HOLDS_US if (tier == 'thorough' or sh.get('chain')) else [HOLDS_US[idx % 3]]
                idx += 1
                for h in holds:
                    c = copy.deepcopy(sh)
                    c['preempt'] = [{'stack': stack, 'file': f, 'line': line, 'nth': n, 'hold_us': h}]
                    cases.append(c)
    return cases


def generate(rng, tier, i):
    dll = rng.choice(['j1939-21', 'j1939-22'])
    mode = rng.choice(['cmdt', 'cmdt', 'cmdt', 'bam'])
    per = 7 if dll == 'j1939-21' else 60
    npk = rng.choice([2, 3, 4, 6, 9])
    scn = base_scn(dll, mode, rng.choice([1, 2, 3, 255]), npk=npk,
                   lat={'kind': 'uniform', 'min_ns': 1000, 'max_ns': rng.choice([50_000, 400_000, 1_000_000])},
                   length=max(per * npk - rng.randrange(0, per), 9 if per == 7 else 61))
    scn['stacks'][1]['max_cmdt'] = rng.choice([1, 2, 3, 255])
    scn['fill'] = rng.randrange(1 << 16)
    scn['seed'] = rng.randrange(1 << 32)
    if rng.random() < 0.2:
        for s in scn['stacks']:
            s['rts_cts_interval'] = 0.001
    pts = record_points(scn)
    allp = [(s, p) for s, pl in sorted(pts.items()) for p in pl]
    pre = []
    for (s, (f, line, n)) in rng.sample(allp, min(2, len(allp))):
        pre.append({'stack': s, 'file': f, 'line': line, 'nth': n, 'hold_us': rng.choice(HOLDS_US)})
    scn['preempt'] = pre
    return scn


def execute(scn, keep_log=False, hook=None):
    plans = {'O': {}, 'R': {}}
    for p in scn.get('preempt', []):
        plans[p['stack']][(p['file'], p['line'], p['nth'])] = p['hold_us'] * 1000
    tr = {}

    def factory(sim):
        for n in ('O', 'R'):
            tr[n] = Tracer(sim, plans[n], record=bool(scn.get('record')))
        return tr
    w = World(scn, keep_log=keep_log, tracer_factory=factory)
    sim, bus = w.sim, w.bus
    fd = scn['stacks'][0]['dll'] == 'j1939-22'
    mode = scn['mode']
    t0 = sim.now
    sim.run_for(0.02)
    O = w.stacks['O']
    pf, ps = (0xD0, R_ADDR) if mode == 'cmdt' else (0xFE, 0xCA)
    data = payload(scn['fill'], scn['len'])
    m = {'stack': 'O', 'ca': 0, 'dp': 0, 'pf': pf, 'ps': ps, 'len': scn['len']}
    for t in tr.values():
        t.armed = True
    rx_before = {n: s.port.rx_count for n, s in w.stacks.items()}
    data2 = payload(scn['fill'] + 1, scn['len'] + 3)
    chain = {'pulled': False, 'accepted': None, 'tries': 0}
    if scn.get('chain'):
        R = w.stacks['R']

        def r_app(priority, pgn, sa, timestamp, d):
            # receiving application: got the first message -> pull the next one
            if pgn == 0xD000 and not chain['pulled'] and bytes(bytearray(d)) == bytes(data):
                chain['pulled'] = True
                if scn.get('pull_delay_us'):
                    sim.after(scn['pull_delay_us'] * 1000, lambda: R.cas[0].send_pgn(0, 0xD8, O_ADDR, 6, [1, 2, 3]), 'op')
                else:
                    R.cas[0].send_pgn(0, 0xD8, O_ADDR, 6, [1, 2, 3])

        def o_submit():
            chain['tries'] += 1
            r = O.cas[0].send_pgn(0, 0xD0, R_ADDR, 6, list(data2))
            if r is True:
                chain['accepted'] = sim.now
            elif chain['tries'] < 60:
                sim.after(2_000_000, o_submit, 'op')     # pair / session busy: the application tries again 2 ms later

        def o_app(priority, pgn, sa, timestamp, d):
            if pgn == 0xD800 and chain['accepted'] is None and chain['tries'] == 0:
                o_submit()
        R.cas[0].subscribe(r_app)
        O.cas[0].subscribe(o_app)
    ok = O.cas[0].send_pgn(0, pf, ps, 6, list(data))
    viol = []
    if ok is not True:
        viol.append({'clause': 'send-refused', 'rank': 2, 'msg': 'send_pgn returned %r' % (ok,)})
    per = 60 if fd else 7
    npk = (scn['len'] + per - 1) // per
    # count frames received by a stack while its job thread is parked at a pre-emption point
    rx_parked = [0]
    for n, s in w.stacks.items():
        orig = s.port.deliver

        def wrapped(fr, s=s, orig=orig):
            if s.job.parked_at == 'preempt':
                rx_parked[0] += 1
            orig(fr)
        s.port.deliver = wrapped
    cap = 0.5 + npk * ((0.05 if not fd else 0.012) if mode == 'bam' else 0.01) + (0.3 if scn.get('chain') else 0)
    states = set()
    for _ in range(int(cap / 0.02) + 1):
        sim.run_for(0.02)
        states.add(common.abstract_state(w))
        if not common.busy(w) and not any(s.job.parked_at == 'preempt' for s in w.stacks.values()) and sim.now - t0 > 60_000_000 and (
                not scn.get('chain') or (chain['accepted'] is not None and sim.now - chain['accepted'] > 20_000_000) or chain['tries'] >= 60):
            break
    for t in tr.values():
        t.armed = False
    # a pre-emption may make a session time out legitimately?  No: holds are <= 5 ms, far below every timeout.
    sim.run_for(0.1)
    late = common.busy(w)
    if late:
        sim.run_for(3.5)
    exp, extra, meta = common.Counter(), common.Counter(), {}
    e, x = common.expected_deliveries(scn, m, data, meta)
    exp.update(e)
    extra.update(x)
    if scn.get('chain'):
        if chain['accepted'] is None:
            viol.append({'clause': 'chained-send-never-accepted', 'rank': 3, 'msg': 'the follow-on message was refused %d times over %d ms' % (chain['tries'], chain['tries'] * 2)})
        else:
            m2 = dict(m, len=len(data2))
            e, x = common.expected_deliveries(scn, m2, data2, meta)
            exp.update(e)
            extra.update(x)
        exp[('O', 'ca0', 0xD800, R_ADDR, bytes([1, 2, 3]))] += 1
    viol += common.thread_violations(w)
    viol += common.compare_deliveries(w, exp, extra, meta=meta)
    if late and not viol:
        viol.append({'clause': 'session-stuck', 'rank': 3, 'msg': 'a session was still open long after the transfer should have finished'})
    viol += common.idle_violations(w)
    fired = sum(len(t.fired) for t in tr.values())
    res = {'violations': viol, 'stats': {'preempt_fired_runs': int(fired > 0), 'rx_while_parked': rx_parked[0], 'frames': len(bus.frames)},
           'nontrivial': fired > 0, 'digest': sim.digest(), 'sim_s': (sim.now - t0) / 1e9, 'states': states,
           'summary': '%s %s win=%s preempt=%s frames=%d' % (scn['stacks'][0]['dll'], mode, scn['stacks'][0]['max_cmdt'], scn.get('preempt'), len(bus.frames))}
    if scn.get('record'):
        res['points'] = {n: t.points for n, t in tr.items()}
    if keep_log:
        res['log'] = sim.logbuf
    w.close()
    return res


def features(scn, v):
    f = {'dll': scn['stacks'][0]['dll'], 'mode': scn['mode']}
    pre = scn.get('preempt') or []
    if len(pre) == 1:
        f['at'] = '%s:%s:%d' % (pre[0]['stack'], pre[0]['file'], pre[0]['line'])
    return f


def shrink(scn):
    yield from gen.drop_each(scn, 'preempt', 1)
    for i, p in enumerate(scn.get('preempt', [])):
        for h in HOLDS_US:
            if h < p['hold_us']:
                c = copy.deepcopy(scn)
                c['preempt'][i]['hold_us'] = h
                yield c
