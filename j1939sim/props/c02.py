"""C02 - J1939-22 (FD) transport: intact, exactly once, 8 RTS/CTS + 4 BAM per stack, refusal beyond capacity."""
import copy

from .. import gen, refcodec as rc
from ..world import World, payload
from ..preempt import call_preempted
from . import common

ID = 'C02'
LEVEL = 'exploration'
BUDGET = {'quick': (12000, 80.0), 'thorough': (200000, 1500.0)}
RULE = ('seeded swarm generation of 2-3 real J1939-22 stacks; per originator 1-8 RTS/CTS and 0-4 BAM messages (61..20000 bytes) '
        'submitted within a short window, one or both directions, plus send_pgn calls beyond capacity while sessions are in flight, and in some runs send_pgn calls made from inside the stack\'s own k-th transmission or the acknowledgement callback, and application calls parked at their k-th library source line inside send_pgn for 20 us .. 15 ms; '
        'non-trivial = at least one FD transport session ran; distinct = distinct scenario JSON')
FAULT_COUNTERS = {'application thread parked at a source line inside send_pgn (pre-emption)': 'preempted_calls', "application send_pgn from inside the stack's own transmission": 'reentrant_submissions', 'send_pgn beyond capacity (refused)': 'refused_at_capacity', 'traffic in both directions (runs)': 'bidirectional_runs'}
REQUIRED_PROBES = ['cmdt_msgs', 'bam_msgs', 'refused_at_capacity', 'bidirectional_runs', 'len_mod60_zero', 'reentrant_submissions', 'preempted_calls']
DLL = 'j1939-22'
CAP = {'cmdt': 8, 'bam': 4}


def generate(rng, tier, i):
    ns = rng.choice([2, 2, 3])
    names = ['S%d' % k for k in range(ns)]
    ncas = [rng.choice([1, 1, 2]) for _ in range(ns)]
    addrs = gen.draw_addresses(rng, sum(ncas))
    stacks = []
    k = 0
    for si, n in enumerate(names):
        cas = [{'addr': addrs[k + c]} for c in range(ncas[si])]
        k += ncas[si]
        el = rng.choice([[], [None], [cas[0]['addr']]])
        stacks.append({'name': n, 'dll': DLL, 'max_cmdt': rng.choice(gen.WINDOWS), 'cas': cas, 'ecu_listeners': el})
    if rng.random() < 0.15:
        for s in stacks:
            s['rts_cts_interval'] = rng.choice([0.001, 0.005])
    if rng.random() < 0.2:
        for s in stacks:
            s['bam_interval'] = rng.choice([0.010, 0.02, 0.05, 0.19])
    scn = {'kernel': gen.draw_kernel(rng), 'latency': gen.draw_latency(rng, False, names), 'stacks': stacks}
    origins = [0] if rng.random() < 0.4 else rng.sample(range(ns), rng.randint(2, ns))
    saturate = rng.random() < 0.5
    big = rng.random() < 0.1
    msgs = []
    for si in origins:
        ncm = 8 if saturate else rng.randint(1, 8)
        nb = rng.choice([0, 0, 1, 2, 4]) if not saturate else rng.choice([0, 4])
        t0 = rng.choice([0, 0, 20_000])
        spread = rng.choice([0, 0, 500, 30_000])
        plan = ['cmdt'] * ncm + ['bam'] * nb
        rng.shuffle(plan)
        if saturate:
            plan += [rng.choice(['cmdt', 'bam'] if nb else ['cmdt']) for _ in range(rng.randint(1, 3))]
        for kind in plan:
            ci = rng.randrange(ncas[si])
            if kind == 'cmdt':
                others = [(sj, cj) for sj in range(ns) if sj != si for cj in range(ncas[sj])]
                sj, cj = rng.choice(others)
                pf, ps = rng.choice([0, 0xD0, 0xEF, rng.randrange(0, 240)]), stacks[sj]['cas'][cj]['addr']
                if pf in (0xEA, 0xEE, 0x4D, 0x4E, 0x25, 0xEB, 0xEC):
                    pf = 0xD1
            else:
                if rng.random() < 0.4:
                    pf, ps = rng.choice([0, 0xD0, 0xEF]), 255
                else:
                    pf, ps = rng.choice([240, 254, 255]), rng.choice([0, 0xCA, 255, rng.randrange(256)])
            n = gen.len22(rng, 20000 if big else 3000)
            if saturate:
                n = max(n, 400)      # keep the sessions in flight while the over-capacity calls are made
            msgs.append({'at_us': t0 + (rng.randint(0, spread) if not saturate else 0), 'stack': names[si], 'ca': ci,
                         'prio': rng.randrange(8), 'dp': rng.choice([0, 0, 1]), 'pf': pf, 'ps': ps, 'len': n,
                         'fill': rng.randrange(1 << 16)})
    scn['msgs'] = sorted(msgs, key=lambda m: m['at_us'])   # stable: keeps the plan order at equal instants
    # application calls made from inside the originating stack's own k-th transmission (an application thread running at
    # that very instant, or a backend that calls back): the new message must be accepted/refused and delivered like any other
    if not saturate and rng.random() < 0.2:
        # a broadcast requested by the same CA at the very moment its previous broadcast session ends
        si = origins[0]
        ci = rng.randrange(ncas[si])
        for j, trig in enumerate([None, 'eoms', rng.choice(['eoms', 'last_dt'])][:rng.choice([2, 3])]):
            m = {'at_us': 0, 'stack': names[si], 'ca': ci, 'prio': 6, 'dp': 0, 'pf': 0xFE, 'ps': 0xC0 + j, 'len': rng.choice([61, 121, 200]), 'fill': rng.randrange(1 << 16)}
            if trig:
                m['on_tx'] = trig
            scn['msgs'].append(m)
    # the application submits the next message from inside the end-of-message-acknowledge callback of an earlier one
    scn['msgs_plain'] = [dict(m) for m in scn['msgs']]
    if not saturate:
        for idx, m in enumerate(scn['msgs_plain']):
            if m['pf'] < 240 and m['ps'] != 255 and rng.random() < 0.15:
                scn['msgs'].append(dict(m, fill=rng.randrange(1 << 16), len=gen.len22(rng, 1500), pf=rng.choice([m['pf'], 0xD4]), on_ack_of=idx, at_us=0))
    if not saturate and rng.random() < 0.35:
        for m in rng.sample([x for x in scn['msgs'] if x.get('on_ack_of') is None], min(len([x for x in scn['msgs'] if x.get('on_ack_of') is None]), rng.randint(1, 3))):
            if m is not scn['msgs'][0]:
                m['on_tx'] = rng.choice([1, 2, 3, 4, 5, 6, 8, 10, rng.randrange(1, 40), 'eoms', 'eoms', 'last_dt'])
    # pre-emption of the application thread inside send_pgn: parked at its k-th library source line for a while
    if rng.random() < 0.25:
        plain = [m for m in scn['msgs'] if m.get('on_tx') is None and m.get('on_ack_of') is None]
        for m in rng.sample(plain, min(len(plain), rng.randint(1, 3))):
            m['pre'] = {'k': rng.randint(1, 90), 'hold_us': rng.choice([20, 300, 3000, 15000])}
    return scn


def snapshot(st):
    d = st.dll()
    return (sorted((k, b.get('state'), b.get('next_packet_to_send'), b.get('deadline')) for k, b in d._snd_buffer.items()),
            sorted((k, len(b.get('data', []))) for k, b in d._rcv_buffer.items()),
            list(getattr(d, '_J1939_22__bam_session_list', None) or []), list(getattr(d, '_J1939_22__rts_cts_session_list', None) or []))


def execute(scn, keep_log=False, hook=None):
    w = World(scn, keep_log=keep_log)
    sim = w.sim
    bus = w.bus
    exp, extra, meta = common.Counter(), common.Counter(), {}
    viol = []
    stats = {'cmdt_msgs': 0, 'bam_msgs': 0, 'refused_at_capacity': 0, 'len_mod60_zero': 0, 'reentrant_submissions': 0, 'submitted_from_ack_callback': 0, 'preempted_calls': 0,
             'bidirectional_runs': int(len({m['stack'] for m in scn['msgs']}) > 1)}
    states = set()
    t0 = sim.now
    sim.run_for(0.02)
    lat = scn['latency']
    max_lat = max([lat.get('ns', 0), lat.get('max_ns', 0)] + list((lat.get('per') or {}).values()))
    release_slack = max_lat + scn['kernel']['lmax_ns'] * 4 + 1_000_000
    # per originator stack: accepted sessions, each [kind, addresses, done_at_ns or None]
    inflight = {s['name']: [] for s in scn['stacks']}
    addr_owner = {c['addr']: s['name'] for s in scn['stacks'] for c in s['cas']}

    def observe(fr):
        """Bus monitor: an originator's session is certainly over once its EOMA (RTS/CTS) or its
        EOMS (BAM) is on the bus."""
        i = rc.Id(fr.can_id)
        if i.pf != rc.PF_FD_TP_CM or len(fr.data) < 12:
            return
        cm = rc.FdCm(fr.data)
        if cm.ctrl == rc.FD_EOMA:
            owner = addr_owner.get(i.ps)
            for rec in inflight.get(owner, []):
                if rec['kind'] == 'cmdt' and rec['done'] is None and rec['sa'] == i.ps and rec['da'] == i.sa and rec['size'] == cm.a:
                    rec['done'] = sim.now
                    break
        elif cm.ctrl == rc.FD_EOMS and i.ps == 255:
            owner = addr_owner.get(i.sa)
            for rec in inflight.get(owner, []):
                if rec['kind'] == 'bam' and rec['done'] is None and rec['sa'] == i.sa and rec['size'] == cm.a:
                    rec['done'] = sim.now
                    break
    bus.observers.append(observe)

    def submit(m):
        st = w.stacks[m['stack']]
        data = payload(m['fill'], m['len'])
        mode = common.msg_mode(st.cfg, m)
        # (a call that is parked inside send_pgn right now may or may not have taken its session number yet: not counted as certain)
        me = (id(sim.current) if sim.current is not None else 0, sim.step_depth)
        # (likewise a call another thread is making right now - it may still be refused; a call up this thread's own call chain - this
        #  submission is nested in its transmission - has its number for certain)
        sure = sum(1 for r in inflight[m['stack']] if r['kind'] == mode and r['done'] is None and not r.get('parked_call') and r.get('in_call', me) == me)
        # (a session the bus monitor saw finish while threads of the stack were parked / waiting for a parked lock holder is released that much later)
        blk = blocked.get(m['stack'], (0, 0))
        maybe = sum(1 for r in inflight[m['stack']] if r['kind'] == mode and (r['done'] is None or sim.now < r['done'] + release_slack + (
            (blk[1] - blk[0]) if (r['done'] <= blk[1] and sim.now < blk[1] + release_slack) else 0)))
        before_frames = len(bus.frames) + len(bus.suppressed)
        lock_waits0 = sim.lock_waits
        t_call = sim.now
        before = snapshot(st)
        # registered before the call: a submission nested inside this call's own transmission must see this session as in use
        sa0 = st.cfg['cas'][m['ca']]['addr']
        rec0 = {'kind': mode, 'sa': sa0, 'da': common.msg_dest(m), 'size': m['len'], 'done': None, 'in_call': me}
        inflight[m['stack']].append(rec0)
        nested_before = stats['reentrant_submissions']
        pre = m.get('pre') if sim.current is None and not held else None
        if pre:
            rec0['parked_call'] = True
            # the application thread is parked at its k-th source line inside send_pgn; job threads and reception run on, and with them
            # the submissions made from their callbacks (nested in a transmission, from the acknowledge callback) - a second thread
            # inside send_pgn, for another (SA,DA) pair; submissions for the pair of the parked call wait until it has returned
            held.append(pair_key(m))
        try:
            ok, tr = call_preempted(sim, (lambda: st.cas[m['ca']].send_pgn(m['dp'], m['pf'], m['ps'], m['prio'], list(data))), pre)
        finally:
            if pre:
                held.pop()
                rec0.pop('parked_call', None)
        was_held = tr is not None and tr.fired > 0
        if was_held:
            stats['preempted_calls'] += 1
        if was_held or sim.lock_waits != lock_waits0:
            blocked[m['stack']] = (min(t_call, blocked.get(m['stack'], (t_call, 0))[0]) if blocked.get(m['stack'], (0, 0))[1] >= t_call else t_call, sim.now)
            # (also for a call that waited for a lock another thread held: time passed inside the call)
            # sessions that ended while the call was held are free
            sure = sum(1 for r in inflight[m['stack']] if r is not rec0 and r['kind'] == mode and r['done'] is None and not r.get('parked_call') and r.get('in_call', me) == me)
            # ... and sessions opened from callbacks meanwhile may have used the capacity up
            # (threads that wait for a parked lock holder also release finished sessions later: the slack grows by the time spent in the call)
            maybe = max(maybe, sum(1 for r in inflight[m['stack']] if r is not rec0 and r['kind'] == mode and (
                r['done'] is None or sim.now < r['done'] + release_slack + (sim.now - t_call))))
        rec0.pop('in_call', None)
        if ok is not True:
            inflight[m['stack']].remove(rec0)
        if pre:
            for later in list(deferred):
                deferred.remove(later)
                later()
        nested_inside = stats['reentrant_submissions'] != nested_before
        if m['len'] % 60 == 0:
            stats['len_mod60_zero'] += 1
        if ok is True:
            if sure >= CAP[mode]:
                viol.append({'clause': 'accepted-beyond-capacity', 'rank': 2, 'feat': {'mode': mode},
                             'msg': 'send_pgn accepted a %s message while %d sessions of that kind were in flight' % (mode, sure)})
            stats[mode + '_msgs'] += 1
            e, x = common.expected_deliveries(scn, m, data, meta)
            exp.update(e)
            extra.update(x)
            return
        # refused
        if ok is not False:
            viol.append({'clause': 'send-return-value', 'rank': 2, 'msg': 'send_pgn returned %r' % (ok,)})
        if maybe < CAP[mode]:
            viol.append({'clause': 'refused-below-capacity', 'rank': 2, 'feat': {'mode': mode},
                         'msg': 'send_pgn refused a %s message although at most %d of %d sessions can be in use' % (mode, maybe, CAP[mode])})
        else:
            stats['refused_at_capacity'] += 1
        if was_held or sim.lock_waits != lock_waits0:
            return          # frames and tables legitimately moved on while the call was held (or waited for a lock another thread held)
        if len(bus.frames) + len(bus.suppressed) != before_frames:
            viol.append({'clause': 'refused-call-emitted-frames', 'rank': 1, 'feat': {'mode': mode},
                         'msg': 'a refused send_pgn put %d frame(s) on the bus' % (len(bus.frames) + len(bus.suppressed) - before_frames)})
        if snapshot(st) != before:
            viol.append({'clause': 'refused-call-changed-state', 'rank': 1, 'feat': {'mode': mode},
                         'msg': 'a refused send_pgn changed the session tables or pools'})

    base = sim.now
    txcount = {}
    nest = [0]
    blocked = {}    # stack -> (from, to): the latest stretch of time in which an application call was parked or calls waited for a lock
    held = []       # (stack, CA, destination) of the application call that is parked inside send_pgn right now

    def pair_key(m):
        return (m['stack'], m['ca'], common.msg_dest(m))
    deferred = []
    pending_on_tx = [m for m in scn['msgs'] if m.get('on_tx') is not None]

    def on_tx(fr):
        k = txcount.get(fr.src, 0)
        txcount[fr.src] = k + 1
        if nest[0]:
            return
        i = rc.Id(fr.can_id)
        kind = None
        if i.pf == rc.PF_FD_TP_CM and len(fr.data) >= 12 and (fr.data[0] & 0xF) == rc.FD_EOMS:
            kind = 'eoms'           # the frame that ends one of the stack's own sessions is being transmitted
        elif i.pf == rc.PF_FD_TP_DT and len(fr.data) < 64:
            kind = 'last_dt'
        for m in list(pending_on_tx):
            if m['stack'] == fr.src and (m['on_tx'] == k or (kind is not None and m['on_tx'] == kind)) and pair_key(m) not in held:
                pending_on_tx.remove(m)
                nest[0] += 1
                try:
                    stats['reentrant_submissions'] += 1
                    submit(m)
                finally:
                    nest[0] -= 1
    bus.post_hooks.append(on_tx)
    pending_on_ack = [m for m in scn['msgs'] if m.get('on_ack_of') is not None]

    def on_delivery(stack, lid, pgn, sa, d):
        # the originator's CA listener sees the 12-byte FD.TP.CM end-of-message acknowledge of message i
        if not d or len(d) != 12 or (d[0] & 0xF) != rc.FD_EOMA or not lid.startswith('ca'):
            return
        for m in list(pending_on_ack):
            src = scn['msgs_plain'][m['on_ack_of']]
            if stack == src['stack'] and lid == 'ca%d' % src['ca'] and sa == src['ps'] and pgn == rc.sae_pgn(src['dp'], src['pf'], src['ps']) and rc.le24(d, 1) == src['len']:
                pending_on_ack.remove(m)
                stats['submitted_from_ack_callback'] += 1
                if pair_key(m) in held:
                    deferred.append(lambda m=m: submit(m))
                else:
                    submit(m)
    w.delivery_hooks.append(on_delivery)
    for m in scn['msgs']:
        if m.get('on_tx') is None and m.get('on_ack_of') is None:
            sim.at(base + m['at_us'] * 1000, (lambda m=m: submit(m)), 'op')
    if hook:
        hook(w)
    longest = max([m['len'] for m in scn['msgs']] + [0])
    bam_iv = max([s.get('bam_interval') or 0.01 for s in scn['stacks']])
    cap = 4.0 + (longest / 60.0) * (bam_iv + 0.012) * 1.1
    for _ in range(int(cap / 0.05) + 1):
        sim.run_for(0.05)
        states.add(common.abstract_state(w))
        if sim.now - base > 100_000_000 and not common.busy(w):
            break
    sim.run_for(0.05)
    viol += common.thread_violations(w)
    viol += common.compare_deliveries(w, exp, extra, meta=meta)
    viol += common.idle_violations(w)
    multi = stats['cmdt_msgs'] + stats['bam_msgs']
    res = {'violations': viol, 'stats': dict(stats, frames=len(bus.frames), deliveries=len(w.deliveries)),
           'nontrivial': multi > 0 and len(bus.frames) > 2, 'digest': sim.digest(), 'sim_s': (sim.now - t0) / 1e9,
           'states': states, 'summary': '%d msgs, %d frames, %d deliveries' % (len(scn['msgs']), len(bus.frames), len(w.deliveries))}
    if keep_log:
        res['log'] = sim.logbuf
    w.close()
    return res


def features(scn, v):
    return {'dll': DLL}


def shrink(scn):
    yield from gen.drop_each(scn, 'msgs', 1)
    used = {m['stack'] for m in scn['msgs']}
    dests = {common.msg_dest(m) for m in scn['msgs']}
    for i, s in enumerate(scn['stacks']):
        if s['name'] not in used and not any(c['addr'] in dests for c in s['cas']) and len(scn['stacks']) > 2:
            c = copy.deepcopy(scn)
            del c['stacks'][i]
            yield c
    yield from gen.simplify_env(scn)
    for i, m in enumerate(scn['msgs']):
        for n in gen.shrink_int(m['len'], [61, 120, 121, 181]):
            if n > 60:
                c = copy.deepcopy(scn)
                c['msgs'][i]['len'] = n
                yield c
        if m['at_us']:
            c = copy.deepcopy(scn)
            c['msgs'][i]['at_us'] = 0
            yield c
        if m.get('on_tx') is not None:
            c = copy.deepcopy(scn)
            del c['msgs'][i]['on_tx']
            yield c
    for i, s in enumerate(scn['stacks']):
        if s['max_cmdt'] != 1:
            c = copy.deepcopy(scn)
            c['stacks'][i]['max_cmdt'] = 1
            yield c
        for key in ('rts_cts_interval', 'bam_interval'):
            if s.get(key) is not None:
                c = copy.deepcopy(scn)
                c['stacks'][i][key] = None
                yield c
        if s.get('ecu_listeners'):
            c = copy.deepcopy(scn)
            c['stacks'][i]['ecu_listeners'] = []
            yield c
