"""C09 - originator obeys flow control and pacing; responder never over-grants."""
import copy

from .. import gen, refcodec as rc
from ..refpeer import RefPeer
from ..world import World, payload
from . import common

ID = 'C09'
LEVEL = 'exploration'
BUDGET = {'quick': (30000, 80.0), 'thorough': (400000, 1500.0)}
RULE = ('bus monitor (credit per session, pacing) over seeded runs of: (a) real stack as originator vs the reference responder granting 1..limit with '
        '0-3 holds, (b) real stack as responder vs the reference originator with RTS limit 1..255, (c) two real stacks with max_cmdt 1..255 each, '
        '(d) BAM from a stack that is otherwise idle or has a second send session that only waits, (e) a responder that dies while holding the connection; minimum_tp_bam_dt_interval in {default, 10..190 ms}, minimum_tp_rts_cts_dt_interval in {None, 1..50 ms}; '
        'both data link layers; latency [0, 5 ms]. non-trivial = at least one data packet was judged by the monitor; distinct = distinct scenario JSON')
FAULT_COUNTERS = {'legal peer freedom: hold CTS seen': 'holds_seen'}
REQUIRED_PROBES = ['dt_judged', 'cts_judged', 'holds_seen', 'bam_gaps_judged', 'cmdt_gaps_judged']
S_ADDR, P_ADDR = 0x31, 0x52


class FlowMonitor:
    """Independent observer of the bus record.  `stacks`: address -> {'max_cmdt', 'bam_interval', 'rts_cts_interval'} for
    addresses owned by real stacks (only their behaviour is judged)."""

    def __init__(self, fd, stacks, read_cost_ns, lmax_ns, idle_sender):
        self.fd = fd
        self.stacks = stacks
        self.eps = 30 * read_cost_ns + 2000
        self.lmax = lmax_ns
        self.idle_sender = idle_sender
        self.sess = {}      # (sa, da, session) -> state
        self.viol = []
        self.stats = {'dt_judged': 0, 'cts_judged': 0, 'holds_seen': 0, 'bam_gaps_judged': 0, 'cmdt_gaps_judged': 0}

    def v(self, clause, msg, side):
        if len(self.viol) < 5:
            self.viol.append({'clause': clause, 'rank': 1, 'msg': msg, 'feat': {'side': side}})

    def on_frame(self, fr):
        i = rc.Id(fr.can_id)
        d = fr.data
        t = fr.t
        if not self.fd:
            if i.pf == rc.PF_TP_CM and len(d) == 8:
                self.cm(t, i, d[0], 0, d[1] | (d[2] << 8), d[3], d[4], d[1], d[2])
            elif i.pf == rc.PF_TP_DT and len(d) == 8:
                self.dt(t, i, 0, d[0])
        else:
            if i.pf == rc.PF_FD_TP_CM and len(d) >= 12:
                cm = rc.FdCm(d)
                ctrl = {rc.FD_RTS: rc.RTS, rc.FD_CTS: rc.CTS, rc.FD_EOMS: 'eoms', rc.FD_EOMA: rc.EOMA, rc.FD_BAM: rc.BAM, rc.FD_ABORT: rc.ABORT}.get(cm.ctrl)
                self.cm(t, i, ctrl, cm.session, cm.a, cm.b, cm.b7, cm.b7, cm.b)
            elif i.pf == rc.PF_FD_TP_DT and len(d) >= 5:
                self.dt(t, i, d[0] >> 4, rc.le24(d, 1))

    def cm(self, t, i, ctrl, session, size, npk, lim, cts_n, cts_next):
        if ctrl == rc.RTS:
            self.sess[(i.sa, i.ps, session)] = {'kind': 'cmdt', 'npk': npk, 'lim': lim if lim else 255, 'credit': 0, 'next': 1, 'cts': 0,
                                               'last_dt': None, 'held': False}
        elif ctrl == rc.BAM:
            self.sess[(i.sa, 255, session)] = {'kind': 'bam', 'npk': npk, 'next': 1, 'last_dt': t, 'credit': npk}
        elif ctrl == rc.CTS:
            s = self.sess.get((i.ps, i.sa, session))      # session originated by i.ps towards i.sa
            if s is None or s['kind'] != 'cmdt':
                return
            if cts_n == 0:
                s['credit'] = 0
                s['held'] = True
                self.stats['holds_seen'] += 1
                return
            s['held'] = False
            if i.sa in self.stacks:                        # responder is a real stack: judge the grant
                self.stats['cts_judged'] += 1
                own = self.stacks[i.sa]['max_cmdt']
                remaining = s['npk'] - cts_next + 1
                if cts_n > s['lim']:
                    self.v('over-grant', 'CTS from %d grants %d packets, RTS limit is %d' % (i.sa, cts_n, s['lim']), 'responder')
                if cts_n > own:
                    self.v('over-grant', 'CTS from %d grants %d packets, its own maximum is %d' % (i.sa, cts_n, own), 'responder')
                if cts_n > remaining:
                    self.v('over-grant', 'CTS from %d grants %d packets from %d, only %d remain of %d' % (i.sa, cts_n, cts_next, remaining, s['npk']), 'responder')
                if s['credit'] > 0:
                    self.v('early-cts', 'CTS from %d while %d granted packets are still outstanding' % (i.sa, s['credit']), 'responder')
            s['credit'] = cts_n
            s['next'] = cts_next
            s['cts'] += 1
            s['last_dt'] = None
        elif ctrl in (rc.EOMA, rc.ABORT):
            self.sess.pop((i.ps, i.sa, session), None)
            if ctrl == rc.ABORT:
                self.sess.pop((i.sa, i.ps, session), None)
        elif ctrl == 'eoms':
            s = self.sess.get((i.sa, i.ps, session))
            if s is not None and s['kind'] == 'bam':
                self.gap(t, i, s)
                del self.sess[(i.sa, 255, session)]

    def gap(self, t, i, s):
        if i.sa not in self.stacks or s['last_dt'] is None:
            return
        cfg = self.stacks[i.sa]
        g = t - s['last_dt']
        if s['kind'] == 'bam':
            iv = cfg['bam_interval']
            self.stats['bam_gaps_judged'] += 1
            if g < iv - self.eps:
                self.v('bam-too-fast', 'broadcast data packets from %d only %.3f ms apart (configured minimum %.1f ms)' % (i.sa, g / 1e6, iv / 1e6), 'originator')
            if self.idle_sender and g > min(max(iv, 0), 200_000_000) + self.lmax + self.eps + 200_000 and iv <= 200_000_000:
                self.v('bam-too-slow', 'broadcast data packets from %d %.3f ms apart while idle (interval %.1f ms, limit 200 ms)' % (i.sa, g / 1e6, iv / 1e6), 'originator')
        elif cfg['rts_cts_interval'] is not None:
            self.stats['cmdt_gaps_judged'] += 1
            if g < cfg['rts_cts_interval'] - self.eps:
                self.v('cmdt-too-fast', 'connection-mode data packets from %d only %.3f ms apart (configured minimum %.1f ms)' % (
                    i.sa, g / 1e6, cfg['rts_cts_interval'] / 1e6), 'originator')

    def dt(self, t, i, session, seq):
        s = self.sess.get((i.sa, i.ps, session))
        if s is None:
            if i.sa in self.stacks:
                self.v('dt-without-session', 'data packet %d from %d to %d without an announced session' % (seq, i.sa, i.ps), 'originator')
            return
        if i.sa in self.stacks:
            self.stats['dt_judged'] += 1
            if s['kind'] == 'cmdt':
                if s['cts'] == 0:
                    self.v('dt-before-cts', 'data packet %d from %d before the first CTS' % (seq, i.sa), 'originator')
                elif s['credit'] <= 0:
                    self.v('dt-after-hold' if s['held'] else 'dt-beyond-grant',
                           'data packet %d from %d with no credit left (%s)' % (seq, i.sa, 'after a hold' if s['held'] else 'window exhausted'), 'originator')
            if seq != s['next']:
                self.v('dt-sequence', 'data packet %d from %d, expected %d' % (seq, i.sa, s['next']), 'originator')
            self.gap(t, i, s)
        s['credit'] -= 1
        s['next'] = seq + 1
        s['last_dt'] = t
        if s['kind'] == 'bam' and not self.fd and s['next'] > s['npk']:
            del self.sess[(i.sa, i.ps, session)]


def generate(rng, tier, i):
    dll = rng.choice(['j1939-21', 'j1939-22'])
    fd = dll == 'j1939-22'
    kind = rng.choice(['a', 'a', 'b', 'b', 'c', 'bam', 'bam', 'a_dies'])
    length = gen.len22(rng, 3000) if fd else max(9, gen.len21(rng))
    if kind == 'bam' and length > (40 * (60 if fd else 7)):
        length = rng.randrange(61 if fd else 9, 40 * (60 if fd else 7))
    st = {'name': 'S', 'dll': dll, 'max_cmdt': rng.choice(gen.WINDOWS + [rng.randint(1, 255)]), 'cas': [{'addr': S_ADDR}]}
    if rng.random() < 0.4:
        st['rts_cts_interval'] = rng.choice([0.001, 0.005, 0.02, 0.05])
    if rng.random() < 0.5 or kind == 'bam':
        st['bam_interval'] = rng.choice([None, 0.010, 0.05, 0.1, 0.19, rng.randint(10, 190) / 1000.0])
    scn = {'kernel': gen.draw_kernel(rng), 'latency': gen.draw_latency(rng, True, ['S', 'T', 'P']), 'stacks': [st], 'kind': kind, 'len': length,
           'fill': rng.randrange(1 << 16)}
    if kind == 'c':
        scn['stacks'].append({'name': 'T', 'dll': dll, 'max_cmdt': rng.choice(gen.WINDOWS + [rng.randint(1, 255)]), 'cas': [{'addr': P_ADDR}],
                              'rts_cts_interval': st.get('rts_cts_interval')})
        if fd and scn['latency']['kind'] == 'zero':
            scn['latency'] = {'kind': 'const', 'ns': 1000}
    else:
        if scn['latency']['kind'] == 'zero' and fd:
            scn['latency'] = {'kind': 'const', 'ns': 1000}
        scn['peer'] = {'policy': {'reply_ms': rng.choice([(0, 0), (0, 5), (0, 150)]), 'holds': rng.choice([(0, 0), (0, 3), (1, 3)]),
                                  'hold_gap_ms': rng.choice([(1, 50), (100, 450)]), 'window': rng.choice([None, None, 1, 2, 255]),
                                  'rts_limit': rng.choice([1, 2, 3, 8, 255, rng.randint(1, 255)]), 'dt_gap_ms': rng.choice([(0, 0), (0, 5), (50, 190)])}}
        if length > 600:
            scn['peer']['policy'].update({'reply_ms': (0, 5), 'dt_gap_ms': (0, 2), 'hold_gap_ms': (1, 50)})
        if kind == 'a_dies':
            # the responder sends 1-3 holds (at the start or at a window border) and then falls silent: no data may follow
            scn['kind'] = 'a'
            scn['peer']['policy'].update({'holds': (1, 3), 'silent_after_holds': True, 'window': rng.choice([1, 2, None])})
            scn['dies'] = True
        if kind == 'bam' and rng.random() < 0.5:
            # a second send session that just waits (RTS to an absent node) must not disturb the pacing of the broadcast
            scn['waiting_session'] = {'at_ms': rng.choice([0, 60, 120]), 'len': rng.choice([20, 100])}
    return scn


def execute(scn, keep_log=False, hook=None):
    w = World(scn, keep_log=keep_log)
    sim, bus = w.sim, w.bus
    st = w.stacks['S']
    fd = st.cfg['dll'] == 'j1939-22'
    kind = scn['kind']
    default_bam = 10_000_000 if fd else 50_000_000
    stacks = {}
    for s in scn['stacks']:
        stacks[s['cas'][0]['addr']] = {'max_cmdt': s['max_cmdt'],
                                       'bam_interval': int((s.get('bam_interval') or 0) * 1e9) or default_bam,
                                       'rts_cts_interval': None if s.get('rts_cts_interval') is None else int(s['rts_cts_interval'] * 1e9)}
    mon = FlowMonitor(fd, stacks, scn['kernel']['read_cost_ns'], scn['kernel']['lmax_ns'], idle_sender=(kind == 'bam'))
    bus.observers.append(mon.on_frame)
    peer = None
    if kind != 'c':
        pol = copy.deepcopy(scn.get('peer', {}).get('policy') or {})
        for k in ('reply_ms', 'holds', 'hold_gap_ms', 'dt_gap_ms', 'bam_gap_ms'):
            if k in pol:
                pol[k] = tuple(pol[k])
        peer = RefPeer(sim, bus, 'P', P_ADDR, fd=fd, seed=scn['seed'], policy=pol)
    t0 = sim.now
    sim.run_for(0.02)
    data = payload(scn['fill'], scn['len'])
    viol = []
    if kind in ('a', 'c'):
        ok = st.cas[0].send_pgn(0, 0xD0, P_ADDR, 6, list(data))
    elif kind == 'bam':
        ok = st.cas[0].send_pgn(0, 0xFE, 0xCA, 6, list(data))
        ws = scn.get('waiting_session')
        if ws:
            n_ws = max(ws['len'], 61) if fd else ws['len']
            sim.after(ws['at_ms'] * 1_000_000, lambda: st.cas[0].send_pgn(0, 0xD3, 0x77, 6, payload(9, n_ws)), 'op')
    else:
        ok = peer.send_message(S_ADDR, 0, 0xD0, S_ADDR, data)
    if ok is not True:
        viol.append({'clause': 'send-refused', 'rank': 2, 'msg': 'send returned %r' % (ok,)})
    per = 60 if fd else 7
    npk = (scn['len'] + per - 1) // per
    pol = (scn.get('peer') or {}).get('policy') or {}
    gap = max([pol.get('dt_gap_ms', (0, 2))[1], pol.get('reply_ms', (0, 5))[1]]) / 1000.0
    hold = pol.get('holds', (0, 0))[1] * pol.get('hold_gap_ms', (10, 400))[1] / 1000.0
    if kind == 'bam':
        gap = stacks[S_ADDR]['bam_interval'] / 1e9
    iv = max([s.get('rts_cts_interval') or 0 for s in scn['stacks']])
    cap = 1.0 + npk * (gap * 2 + hold + iv + 0.012) * 1.05 + (2.0 if scn.get('dies') or scn.get('waiting_session') else 0)
    for _ in range(int(cap / 0.1) + 1):
        sim.run_for(0.1)
        if not common.busy(w) and (peer is None or (not peer.rx and not peer.tx)) and sim.now - t0 > 300_000_000:
            break
    sim.run_for(0.1)
    viol += common.thread_violations(w)
    viol += mon.viol
    # the transfer must also have completed (otherwise the monitor judged little)
    if not viol:
        if kind == 'a' and not scn.get('dies') and not any(r['data'] == bytes(data) for r in peer.received):
            viol.append({'clause': 'transfer-incomplete', 'rank': 3, 'msg': 'reference responder did not receive the message: %s' % (peer.protocol_errors[:2],)})
        if kind == 'b' and not any(d['data'] == bytes(data) for d in w.deliveries if d['stack'] == 'S'):
            viol.append({'clause': 'transfer-incomplete', 'rank': 3, 'msg': 'stack did not deliver the message of the reference originator'})
        if kind == 'c' and not any(d['data'] == bytes(data) for d in w.deliveries if d['stack'] == 'T'):
            viol.append({'clause': 'transfer-incomplete', 'rank': 3, 'msg': 'stack T did not deliver the message'})
        viol += common.idle_violations(w)
    res = {'violations': viol, 'stats': dict(mon.stats, frames=len(bus.frames)),
           'nontrivial': mon.stats['dt_judged'] + mon.stats['cts_judged'] > 0, 'digest': sim.digest(), 'sim_s': (sim.now - t0) / 1e9,
           'summary': '%s kind=%s len=%d frames=%d monitor=%s' % (st.cfg['dll'], kind, scn['len'], len(bus.frames), mon.stats)}
    if keep_log:
        res['log'] = sim.logbuf
    w.close()
    return res


def features(scn, v):
    return {'dll': scn['stacks'][0]['dll'], 'kind': scn['kind']}


def shrink(scn):
    yield from gen.simplify_env(scn)
    per = 7 if scn['stacks'][0]['dll'] == 'j1939-21' else 60
    for n in gen.shrink_int(scn['len'], [per + 2, 2 * per + 1, 3 * per, 5 * per]):
        if n > (8 if per == 7 else 60):
            c = copy.deepcopy(scn)
            c['len'] = n
            yield c
    pol = (scn.get('peer') or {}).get('policy') or {}
    for k, simple in (('reply_ms', [0, 1]), ('holds', [0, 0]), ('dt_gap_ms', [0, 1]), ('hold_gap_ms', [10, 20])):
        if k in pol and list(pol[k]) != simple:
            c = copy.deepcopy(scn)
            c['peer']['policy'][k] = simple
            yield c
    for k in ('window', 'rts_limit'):
        if pol.get(k) not in (None, 255):
            c = copy.deepcopy(scn)
            c['peer']['policy'][k] = 255
            yield c
    for i, s in enumerate(scn['stacks']):
        for key in ('rts_cts_interval', 'bam_interval'):
            if s.get(key) is not None:
                c = copy.deepcopy(scn)
                c['stacks'][i][key] = None
                yield c
        if s['max_cmdt'] not in (1, 255):
            for mc in (1, 255):
                c = copy.deepcopy(scn)
                c['stacks'][i]['max_cmdt'] = mc
                yield c
