"""C05 - messages reach only the addressed applications; foreign traffic is ignored."""
import copy

from .. import gen, refcodec as rc
from ..refpeer import RefPeer
from ..world import World, payload
from . import common

ID = 'C05'
LEVEL = 'exploration'
BUDGET = {'quick': (8000, 80.0), 'thorough': (100000, 1500.0)}
CHUNK = 10
RULE = ('a bystander stack (either data link layer) with 0-3 CAs in the claim states operational / not started / waiting for veto / cannot-claim / bypassed-then-lost (real claim histories '
        'with a scripted contender) and ECU-level listeners (unfiltered, integer, predicate); per run: single frames to all 256 destinations x {PDU1, PDU2} (complete '
        'sweep, 512 frames), complete foreign RTS/CTS sessions and a BAM between two reference nodes (FD sessions and multi-PG on J1939-22), and frames with every '
        'can.Message flag combination (11-bit, remote, error), and an RTS/CTS session whose destination loses its only listener after the first data packet. non-trivial = the sweep ran with at least one listener registered; distinct = distinct scenario JSON')
FAULT_COUNTERS = {'foreign transport frames between two other nodes': 'foreign_tp_frames', 'flagged frames (11-bit / remote / error)': 'flag_frames', 'sessions whose destination lost its only listener mid-transfer': 'orphaned_sessions', 'single frames of the destination sweep': 'sweep_frames'}
REQUIRED_PROBES = ['sweep_frames', 'deliveries_judged', 'foreign_tp_frames', 'flag_frames', 'addressless_cas', 'pdu2_frames', 'orphaned_sessions', 'owned_cm_transfers']
P1, P2, X = 0xA1, 0xA2, 0x7D
STATE = {0: 'NONE', 1: 'WAIT_VETO', 2: 'NORMAL', 3: 'CANNOT_CLAIM'}


def generate(rng, tier, i):
    dll = rng.choice(['j1939-21', 'j1939-22'])
    used = {P1, P2, X}
    cas = []
    for _ in range(rng.choice([0, 1, 2, 3])):
        # 'bypass_lost': a CA created with bypass_address_claim=True that later loses its address to a lower NAME (it ends in
        # cannot-claim, or on the next address if it is arbitrary-address-capable)
        kind = rng.choice(['normal', 'normal', 'claimed', 'none', 'veto', 'cannot', 'bypass_lost'])
        while True:
            a = rng.randrange(130, 240) if kind in ('veto', 'cannot', 'bypass_lost') else (rng.randrange(0, 120) if kind == 'claimed' else rng.choice([rng.randrange(0, 254), 0, 253, 128, 0xCA]))
            if a not in used and (kind != 'bypass_lost' or a + 1 not in used):
                used.add(a)
                if kind == 'bypass_lost':
                    used.add(a + 1)
                break
        aac = 0 if kind == 'cannot' else rng.getrandbits(1)
        cas.append({'addr': a, 'name': ((rng.getrandbits(62) | (1 << 41)) & ~(1 << 48)) | (aac << 63), 'bypass': kind in ('normal', 'bypass_lost'), 'kind': kind})
    el = []
    for _ in range(rng.choice([0, 1, 1, 2, 3])):
        k = rng.random()
        if k < 0.35:
            el.append(None)
        elif k < 0.7:
            a = rng.choice([rng.randrange(0, 254), 0xCA, 0x10] + [c['addr'] for c in cas])
            el.append(a if a not in (P1, P2, X) else 0x10)
        else:
            el.append({'accept': sorted(({rng.randrange(0, 254) for _ in range(3)} | ({cas[0]['addr']} if cas else set())) - {P1, P2, X})})
    scn = {'kernel': gen.draw_kernel(rng), 'latency': {'kind': 'const', 'ns': 50_000},
           'stacks': [{'name': 'B', 'dll': dll, 'max_cmdt': rng.choice([1, 3, 255]), 'cas': cas, 'ecu_listeners': el}],
           'foreign_len': rng.choice([20, 100]) if dll == 'j1939-21' else rng.choice([100, 200]),
           'pf1': rng.choice([0xD0, 0x00, 0xEF, 0xC3]), 'pf2': rng.choice([0xFE, 0xF0, 0xFF]), 'dp': rng.choice([0, 0, 1]),
           # listeners that were registered for an address and removed again before any traffic: the address is not owned
           'ghost_listeners': [a for a in (rng.randrange(0, 254), 0x10, 0xCA)[:rng.choice([0, 0, 1, 2])] if a not in used]}
    scn['orphan'] = 0x5E not in used and rng.random() < 0.6
    # an application that registers one and the same receive function for all its CAs and ECU-level listeners
    scn['stacks'][0]['shared_callback'] = rng.random() < 0.25
    return scn


def execute(scn, keep_log=False, hook=None):
    w = World(scn, keep_log=keep_log)
    sim, bus = w.sim, w.bus
    st = w.stacks['B']
    cfg = st.cfg
    fd = cfg['dll'] == 'j1939-22'
    viol = []
    stats = {k: 0 for k in REQUIRED_PROBES}
    t0 = sim.now
    sim.run_for(0.01)
    base = sim.now
    xport = bus.port('X')
    for k, c in enumerate(cfg['cas']):
        ca = st.cas[k]
        if c['kind'] in ('claimed', 'veto', 'cannot'):
            ca.start(0)
        if c['kind'] in ('cannot', 'bypass_lost'):
            nv = (c['name'] & ((1 << 63) - 1)) >> 1
            sim.at(base + 20_000_000, (lambda a=c['addr'], nv=nv: bus.send('X', rc.make_id(6, 0, rc.PF_ADDRESS_CLAIM, 255, a), True, nv.to_bytes(8, 'little'))), 'op')
    for a in scn.get('ghost_listeners', []):
        if a in [x for x in cfg['ecu_listeners'] if isinstance(x, int)]:
            continue
        ghost = (lambda *args: viol.append({'clause': 'unsubscribed-listener-called', 'rank': 1, 'msg': 'a listener removed with unsubscribe() was called'}))
        st.ecu.subscribe(ghost, a)
        st.ecu.unsubscribe(ghost)
    sim.run_until(base + 50_000_000)
    stats['addressless_cas'] = sum(1 for ca in st.cas if ca.state != 2)

    def own_tx():
        return [fr for fr in bus.frames if fr.src == 'B' and rc.Id(fr.can_id).pf != rc.PF_ADDRESS_CLAIM]

    def bounds(dest):
        """(must, allowed) listener ids for a destination-specific message to `dest` right now."""
        must, allowed = set(), set()
        owners = False
        for k, ca in enumerate(st.cas):
            if ca.state == 2 and ca.device_address == dest:
                owners = True
        for adr in cfg['ecu_listeners']:
            if isinstance(adr, int) and adr == dest:
                owners = True
        for k, ca in enumerate(st.cas):
            if ca.state == 2 and ca.device_address == dest:
                must.add('ca%d' % k)
                allowed.add('ca%d' % k)
        for k, adr in enumerate(cfg['ecu_listeners']):
            lid = 'ecu%d' % k
            if adr is None:
                allowed.add(lid)
                if owners:
                    must.add(lid)
            elif isinstance(adr, int):
                if adr == dest:
                    must.add(lid)
                    allowed.add(lid)
            elif dest in adr['accept']:
                allowed.add(lid)
                if owners:
                    must.add(lid)
        if not owners:
            allowed = set()     # nobody local owns the address: no delivery at all
            must = set()
        return must, allowed

    shared = bool(cfg.get('shared_callback'))

    def compare(ids, must, allowed):
        """(extra, missing, duplicated) listeners.  With one callable shared by every registration of the stack the calls cannot be told
        apart: then the number of calls is judged (at least one per listener that must get the message, at most one per listener that may)."""
        if shared:
            n = len(ids)
            return (['%d calls of the shared callback' % n] if n > len(allowed) else [],
                    ['%d call(s) of the shared callback for %d bound listeners' % (n, len(must))] if n < len(must) else [], [])
        return [l for l in ids if l not in allowed], [l for l in must if l not in ids], [l for l in set(ids) if ids.count(l) > 1]

    def all_listeners():
        return {'ca%d' % k for k in range(len(st.cas))} | {'ecu%d' % k for k in range(len(cfg['ecu_listeners']))}

    # ---- sweep: single frames to every destination, PDU1 and PDU2
    t_before = st.tables()
    tx0 = len(own_tx())
    dp = scn.get('dp', 0)
    for dest in range(256):
        for pdu2 in (False, True):
            n0 = len(w.deliveries)
            data = bytes([dest, int(pdu2), 3, 4, 5, 6, 7, 8])
            if pdu2:
                cid = rc.make_id(6, dp, scn['pf2'], dest, X)
                pgn = rc.sae_pgn(dp, scn['pf2'], dest)
                stats['pdu2_frames'] += 1
            else:
                cid = rc.make_id(6, dp, scn['pf1'], dest, X)
                pgn = rc.sae_pgn(dp, scn['pf1'], 0)
            if pdu2 or dest == 255:
                must = allowed = all_listeners()
            else:
                must, allowed = bounds(dest)
            bus.send('X', cid, True, data, fd and False)
            sim.run_for(0.0002)
            stats['sweep_frames'] += 1
            got = w.deliveries[n0:]
            ids = [d['l'] for d in got]
            stats['deliveries_judged'] += len(got)
            bad = [d for d in got if d['pgn'] != pgn or d['sa'] != X or d['data'] != data]
            if bad:
                viol.append({'clause': 'wrong-content', 'rank': 1, 'msg': 'frame %08X delivered as pgn %05X sa %d %s' % (cid, bad[0]['pgn'], bad[0]['sa'], bad[0]['data'].hex())})
            extra, missing, dup = compare(ids, must, allowed)
            kind = 'pdu2' if pdu2 else ('global' if dest == 255 else 'specific')
            if extra:
                viol.append({'clause': 'delivered-to-unaddressed-listener', 'rank': 1, 'feat': {'frame': kind},
                             'msg': 'frame %08X (dest %d, %s) was delivered to %s; bound listeners: %s' % (cid, dest, kind, sorted(extra), sorted(allowed))})
            if missing:
                viol.append({'clause': 'not-delivered-to-bound-listener', 'rank': 2, 'feat': {'frame': kind},
                             'msg': 'frame %08X (dest %d, %s) was not delivered to %s' % (cid, dest, kind, sorted(missing))})
            if dup:
                viol.append({'clause': 'duplicate-delivery', 'rank': 2, 'feat': {'frame': kind}, 'msg': 'frame %08X delivered twice to %s' % (cid, dup)})
            if len(viol) > 6:
                break
        if len(viol) > 6:
            break
    if len(own_tx()) != tx0:
        viol.append({'clause': 'bystander-transmitted', 'rank': 1, 'feat': {'phase': 'sweep'}, 'msg': 'bystander sent %s during the single-frame sweep' % (own_tx()[tx0:][:2],)})
    if st.tables() != t_before:
        viol.append({'clause': 'lasting-state', 'rank': 2, 'feat': {'phase': 'sweep'}, 'msg': 'tables changed by single frames: %s -> %s' % (t_before, st.tables())})

    # ---- single transport-protocol frames (RTS, CTS, DT, end-of-message ack, abort, BAM-less DT) addressed to addresses nobody
    #      local owns: no delivery, no transmission, no state
    foreign = [a for a in [0x99, 0x9A, 254] + list(scn.get('ghost_listeners', [])) if not any(ca.state == 2 and ca.device_address == a for ca in st.cas)
               and not any(isinstance(x, int) and x == a for x in cfg['ecu_listeners'])]
    n0 = len(w.deliveries)
    tx0 = len(own_tx())
    for dest in foreign:
        if not fd:
            raws = [(rc.PF_TP_CM, rc.tp_rts(20, 3, 255, 0xD000)), (rc.PF_TP_CM, rc.tp_cts(2, 1, 0xD000)), (rc.PF_TP_DT, rc.tp_dt(1, [1] * 7)),
                    (rc.PF_TP_CM, rc.tp_eoma(20, 3, 0xD000)), (rc.PF_TP_CM, rc.tp_abort(3, 0xD000))]
        else:
            raws = [(rc.PF_FD_TP_CM, rc.fd_rts(0, 100, 2, 255, 0xD000)), (rc.PF_FD_TP_CM, rc.fd_cts(0, 1, 2, 0xD000)), (rc.PF_FD_TP_DT, rc.fd_dt(0, 1, [1] * 60)),
                    (rc.PF_FD_TP_CM, rc.fd_eoms(0, 100, 2, 0xD000)), (rc.PF_FD_TP_CM, rc.fd_eoma(0, 100, 2, 0xD000)), (rc.PF_FD_TP_CM, rc.fd_abort(0, 3, 0xD000)),
                    (rc.PF_MULTI_PG, rc.mpg_encode([(0xD000, [1, 2, 3])]))]
        for sa in (X, P1):
            for pf, d in raws:
                bus.send('X', rc.make_id(7, 0, pf, dest, sa), True, bytes(d), fd)
                stats['foreign_tp_frames'] += 1
        sim.run_for(0.001)
    sim.run_for(0.002)
    if len(w.deliveries) != n0 or len(own_tx()) != tx0 or st.tables() != t_before:
        viol.append({'clause': 'foreign-tp-frame-processed', 'rank': 1,
                     'msg': 'transport frames to unowned addresses %s caused %d deliveries, %d transmissions (%s), tables %s' % (
                         foreign, len(w.deliveries) - n0, len(own_tx()) - tx0, own_tx()[tx0:][:1], st.tables())})

    # ---- flagged frames: 11-bit, remote, error must cause nothing at all
    local = [ca.device_address for ca in st.cas if ca.state == 2] + [255]
    n0 = len(w.deliveries)
    tx0 = len(own_tx())
    for dest in local[:3]:
        for (ext, remote, error) in ((False, False, False), (True, True, False), (True, False, True), (False, True, False), (False, False, True), (True, True, True)):
            for pf in (scn['pf1'], rc.PF_TP_CM if not fd else rc.PF_FD_TP_CM, rc.PF_REQUEST):
                cid = rc.make_id(6, 0, pf, dest, X)
                if not ext:
                    cid &= 0x7FF
                d = bytes(rc.tp_rts(20, 3, 255, 0xD000)) if pf == rc.PF_TP_CM else (bytes(rc.fd_rts(0, 100, 2, 255, 0xD000)) if pf == rc.PF_FD_TP_CM else bytes([0, 0xEE, 0]))
                bus.send('X', cid, ext, d, False, remote=remote, error=error)
                stats['flag_frames'] += 1
        sim.run_for(0.001)
    if len(w.deliveries) != n0 or len(own_tx()) != tx0 or st.tables() != t_before:
        viol.append({'clause': 'flagged-frame-processed', 'rank': 1,
                     'msg': '11-bit / remote / error frames caused %d deliveries, %d transmissions, tables %s' % (len(w.deliveries) - n0, len(own_tx()) - tx0, st.tables())})

    # ---- foreign sessions between two reference nodes
    p1 = RefPeer(sim, bus, 'P1', P1, fd=fd, seed=scn['seed'], policy={'reply_ms': (0, 1), 'window': 2})
    p2 = RefPeer(sim, bus, 'P2', P2, fd=fd, seed=scn['seed'] + 1, policy={'reply_ms': (0, 1), 'window': 2})
    n0 = len(w.deliveries)
    tx0 = len(own_tx())
    nf = len(bus.frames)
    d1 = payload(11, scn['foreign_len'])
    p1.send_message(P2, 0, 0xD0, P2, d1)
    p2.send_message(P1, 0, 0xD1, P1, payload(12, scn['foreign_len'] + 3))
    if fd:
        p1.send_message(P2, 0, 0xD2, P2, payload(13, 20))      # foreign multi-PG
    peak = 0
    for _ in range(100):
        sim.run_for(0.005)
        tb = st.tables()
        peak = max(peak, tb['rcv'] + tb['snd'])
        if not p1.tx and not p2.tx and not p1.rx and not p2.rx:
            break
    stats['foreign_tp_frames'] += len(bus.frames) - nf
    if not any(r['data'] == bytes(d1) for r in p2.received):
        viol.append({'clause': 'harness-foreign-session-failed', 'rank': 9, 'msg': 'reference nodes could not complete their own transfer: %s %s' % (p1.protocol_errors[:1], p2.protocol_errors[:1])})
    if len(w.deliveries) != n0:
        d = w.deliveries[n0]
        viol.append({'clause': 'foreign-session-delivered', 'rank': 1, 'msg': 'bystander listener %s got pgn %05X from %d (%d bytes) of a session between two other nodes' % (
            d['l'], d['pgn'], d['sa'], len(d['data'] or b''))})
    if len(own_tx()) != tx0:
        viol.append({'clause': 'bystander-transmitted', 'rank': 1, 'feat': {'phase': 'foreign-session'},
                     'msg': 'bystander sent %s during a session between two other nodes' % (own_tx()[tx0:][:2],)})
    if peak or st.tables() != t_before:
        viol.append({'clause': 'lasting-state', 'rank': 2, 'feat': {'phase': 'foreign-session'}, 'msg': 'bystander opened %d session(s) for foreign traffic; tables now %s' % (peak, st.tables())})
    # ---- connection-mode transfers from a reference node to the addresses the stack owns, carrying a PDU1 and a PDU2 parameter group
    #      (the transport may carry any PGN to one destination): delivered to the listeners bound to that address only
    owned = [ca.device_address for ca in st.cas if ca.state == 2] + [x for x in cfg['ecu_listeners'] if isinstance(x, int)]
    for dest in [a for a in dict.fromkeys(owned) if a not in (P1, P2, X, 254, 255)][:2]:
        for (dpx, pfx, psx) in ((scn.get('dp', 0), scn['pf1'], dest), (0, 0xFE, 0xE3)):
            must, allowed = bounds(dest)
            n0 = len(w.deliveries)
            dd = payload(16 + pfx, scn['foreign_len'] + 1)
            p1.send_message(dest, dpx, pfx, psx, dd)
            for _ in range(60):
                sim.run_for(0.005)
                if not p1.tx:
                    break
            sim.run_for(0.01)
            stats['owned_cm_transfers'] += 1
            # (a CA waiting for its veto window may become operational while the transfer runs)
            must2, allowed2 = bounds(dest)
            must, allowed = must & must2, allowed | allowed2
            got = [d for d in w.deliveries[n0:] if d['data'] == bytes(dd)]
            ids = [d['l'] for d in got]
            want_pgn = rc.sae_pgn(dpx, pfx, 0 if pfx < 240 else psx)
            if any(d['pgn'] != want_pgn or d['sa'] != P1 for d in got):
                viol.append({'clause': 'wrong-content', 'rank': 1, 'msg': 'connection-mode message %05X from %d to %d delivered as pgn %05X sa %d' % (want_pgn, P1, dest, got[0]['pgn'], got[0]['sa'])})
            extra, missing, _dup = compare(ids, must, allowed)
            if extra:
                viol.append({'clause': 'delivered-to-unaddressed-listener', 'rank': 1, 'feat': {'frame': 'cm-pdu%d' % (1 if pfx < 240 else 2)},
                             'msg': 'connection-mode message %05X to %d was delivered to %s; bound listeners: %s' % (want_pgn, dest, sorted(extra), sorted(allowed))})
            if missing:
                viol.append({'clause': 'not-delivered-to-bound-listener', 'rank': 2, 'feat': {'frame': 'cm-pdu%d' % (1 if pfx < 240 else 2)},
                             'msg': 'connection-mode message %05X to %d was not delivered to %s (peer errors %s)' % (want_pgn, dest, sorted(missing), p1.protocol_errors[:1])})
            if not shared and len(ids) != len(set(ids)):
                viol.append({'clause': 'duplicate-delivery', 'rank': 2, 'feat': {'frame': 'cm'}, 'msg': 'connection-mode message to %d delivered twice to a listener' % dest})
    # ---- a broadcast (BAM) from a reference node is for everybody
    n0 = len(w.deliveries)
    d3 = payload(14, scn['foreign_len'])
    p1.send_message(255, 0, 0xFE, 0xCB, d3)
    sim.run_for(0.1 + (scn['foreign_len'] / (60 if fd else 7) + 2) * (0.06 if not fd else 0.02))
    ids = sorted(d['l'] for d in w.deliveries[n0:] if d['data'] == bytes(d3) and d['pgn'] == 0xFECB and d['sa'] == P1)
    if (ids != sorted(all_listeners()) if not shared else len(ids) != len(all_listeners())) or len(w.deliveries) - n0 != len(ids):
        viol.append({'clause': 'broadcast-not-to-every-listener', 'rank': 2, 'msg': 'BAM delivered to %s, listeners are %s (%d deliveries)' % (ids, sorted(all_listeners()), len(w.deliveries) - n0)})
    sim.run_for(0.5)
    # ---- ownership that ends in the middle of a transfer: an RTS/CTS session towards an address owned by an ECU-level listener is
    #      opened, the listener is removed after the first data packet, the remaining data packets are then addressed to nobody:
    #      no answer (CTS / end-of-message acknowledge) in the name of that address and no delivery of the message
    A = 0x5E
    if scn.get('orphan') and not any(ca.device_address == A for ca in st.cas) and not any(isinstance(x, int) and x == A for x in cfg['ecu_listeners']):
        got = []
        owner = (lambda prio, pgn, sa, ts, data: got.append(bytes(bytearray(data))))
        st.ecu.subscribe(owner, A)
        body = payload(15, 21 if not fd else 180)
        if not fd:
            bus.send('X', rc.make_id(7, 0, rc.PF_TP_CM, A, X), True, bytes(rc.tp_rts(21, 3, 255, 0xD000)))
            dts = [(rc.PF_TP_DT, bytes(rc.tp_dt(k + 1, body[7 * k:7 * k + 7]))) for k in range(3)]
        else:
            bus.send('X', rc.make_id(7, 0, rc.PF_FD_TP_CM, A, X), True, bytes(rc.fd_rts(0, 180, 3, 255, 0xD000)), True)
            dts = [(rc.PF_FD_TP_DT, bytes(rc.fd_dt(0, k + 1, body[60 * k:60 * k + 60]))) for k in range(3)]
            dts.append((rc.PF_FD_TP_CM, bytes(rc.fd_eoms(0, 180, 3, 0xD000))))
        sim.run_for(0.003)
        opened = any(fr.src == 'B' and rc.Id(fr.can_id).sa == A for fr in bus.frames)
        bus.send('X', rc.make_id(7, 0, dts[0][0], A, X), True, dts[0][1], fd)
        sim.run_for(0.003)
        st.ecu.unsubscribe(owner)
        n0 = len(w.deliveries)
        nf = len(bus.frames)
        for pf, d in dts[1:]:
            bus.send('X', rc.make_id(7, 0, pf, A, X), True, d, fd)
            sim.run_for(0.003)
            stats['foreign_tp_frames'] += 1
        sim.run_for(0.03)
        stats['orphaned_sessions'] += int(opened)
        answers = [fr for fr in bus.frames[nf:] if fr.src == 'B' and rc.Id(fr.can_id).sa == A and fr.data[0] != 255 and (not fd or (fr.data[0] & 0x0F) != 15)]
        if answers:
            viol.append({'clause': 'answered-for-unowned-address', 'rank': 1, 'feat': {'phase': 'ownership-ended-mid-transfer'},
                         'msg': 'data packets for address %d, whose only listener had been removed, were answered with %s' % (A, answers[:2])})
        if got and any(len(g) == len(body) for g in got) or any(d['data'] == bytes(body) for d in w.deliveries[n0:]):
            viol.append({'clause': 'delivered-for-unowned-address', 'rank': 1, 'feat': {'phase': 'ownership-ended-mid-transfer'},
                         'msg': 'the message completed after the listener for address %d had been removed was delivered' % A})
        sim.run_for(1.6)       # the orphaned session times out
    viol += common.thread_violations(w)
    if not viol:
        viol += common.idle_violations(w)
    res = {'violations': viol[:6], 'stats': dict(stats, frames=len(bus.frames)), 'nontrivial': bool(all_listeners()), 'digest': sim.digest(),
           'sim_s': (sim.now - t0) / 1e9,
           'summary': '%s CAs %s listeners %s' % (cfg['dll'], [(c['kind'], STATE.get(ca.state), ca.device_address) for c, ca in zip(cfg['cas'], st.cas)], cfg['ecu_listeners'])}
    if keep_log:
        res['log'] = sim.logbuf
    w.close()
    return res


def features(scn, v):
    return {'dll': scn['stacks'][0]['dll']}


def shrink(scn):
    s = scn['stacks'][0]
    for k in range(len(s['cas'])):
        c = copy.deepcopy(scn)
        del c['stacks'][0]['cas'][k]
        yield c
    for k in range(len(s['ecu_listeners'])):
        c = copy.deepcopy(scn)
        del c['stacks'][0]['ecu_listeners'][k]
        yield c
    kk = scn.get('kernel') or {}
    if kk.get('lmax_ns') != 5000 or kk.get('read_cost_ns') != 1000:
        c = copy.deepcopy(scn)
        c['kernel'] = {'read_cost_ns': 1000, 'lmax_ns': 5000}
        yield c
