"""C03 - wire format interoperates with an independent SAE J1939-21 / -22 implementation (RefPeer)."""
import copy

from .. import gen, refcodec as rc
from ..refpeer import RefPeer
from ..world import World, payload
from . import common

ID = 'C03'
LEVEL = 'exploration'
BUDGET = {'quick': (30000, 80.0), 'thorough': (400000, 1500.0)}
RULE = ('one real stack against the reference peer, either role, RTS/CTS and BAM, both data link layers; enumerated part: every CTS-window '
        'sequence of the peer for 2..6 packets (stack as originator) and every RTS limit 1..npk+1 x max_cmdt {1,2,3,255} (stack as responder); '
        'sampled part: sizes as C01/C02, peer choices (window per CTS, 0-3 holds < 0.5 s, reply latency 0-150 ms, DT spacing < 200 ms, BAM spacing '
        '50-200 / 10-200 ms, RTS limit 1..255) drawn from the seed; non-trivial = a multi-packet transfer completed; distinct = distinct scenario JSON')
FAULT_COUNTERS = {'legal peer freedom: hold CTS sent by the reference responder': 'holds_sent', 'legal peer freedom: CTS windows chosen by the reference responder': 'cts_sent'}
REQUIRED_PROBES = ['orig_runs', 'resp_runs', 'holds_sent', 'fd_runs', 'bam_runs']
S_ADDR_DEFAULT, P_ADDR_DEFAULT = 0x21, 0x42


def compositions(n, maxpart):
    if n == 0:
        yield []
        return
    for k in range(1, min(n, maxpart) + 1):
        for rest in compositions(n - k, maxpart):
            yield [k] + rest


def base(dll, role, mode, length, **kw):
    scn = {'kernel': {'read_cost_ns': 1000, 'lmax_ns': 50_000}, 'latency': {'kind': 'const', 'ns': 100_000},
           'stacks': [{'name': 'S', 'dll': dll, 'max_cmdt': kw.get('max_cmdt', 255), 'cas': [{'addr': kw.get('s_addr', S_ADDR_DEFAULT)}]}],
           'peer': {'addr': kw.get('p_addr', P_ADDR_DEFAULT), 'policy': kw.get('policy', {})},
           'role': role, 'mode': mode, 'len': length, 'fill': kw.get('fill', 5), 'prio': kw.get('prio', 6), 'dp': kw.get('dp', 0),
           'pf': kw.get('pf', 0xD0 if mode == 'cmdt' else 0xFE), 'ps': kw.get('ps', 0xCA)}
    return scn


def enumerate_cases(tier, master):
    cases = []
    for dll, per in (('j1939-21', 7), ('j1939-22', 60)):
        for npk in range(2, 7):
            length = per * npk - 2
            for comp in compositions(npk, npk):
                cases.append(base(dll, 'orig', 'cmdt', length, policy={'window': list(comp)}))
            for lim in range(1, npk + 2):
                for mc in (1, 2, 3, 255):
                    cases.append(base(dll, 'resp', 'cmdt', length, max_cmdt=mc, policy={'rts_limit': lim}))
            cases.append(base(dll, 'orig', 'bam', length))
            cases.append(base(dll, 'resp', 'bam', length))
    return cases


def generate(rng, tier, i):
    dll = rng.choice(['j1939-21', 'j1939-22'])
    fd = dll == 'j1939-22'
    role = rng.choice(['orig', 'resp'])
    mode = rng.choice(['cmdt', 'cmdt', 'bam'])
    length = gen.len22(rng, 6000) if fd else max(9, gen.len21(rng))
    a, b = gen.draw_addresses(rng, 2)
    if mode == 'cmdt':
        pf = rng.choice([0, 0xD0, 0xEF, 0xC3, rng.randrange(0, 240)])
        if pf in (0xEA, 0xEB, 0xEC, 0xEE, 0x4D, 0x4E, 0x25):
            pf = 0xD2
        ps = 0
    elif rng.random() < 0.4:
        pf, ps = rng.choice([0, 0xD0, 0xEF]), 255
    else:
        pf, ps = rng.choice([240, 254, 255]), rng.choice([0, 0xCA, 255, rng.randrange(256)])
    pol = {'reply_ms': rng.choice([(0, 0), (0, 5), (0, 150), (100, 150)]),
           'holds': rng.choice([(0, 0), (0, 0), (0, 3), (1, 3)]),
           'hold_gap_ms': rng.choice([(1, 50), (100, 480), (400, 480)]),
           'window': rng.choice([None, None, 1, 2, 255]),
           'rts_limit': rng.choice([1, 2, 3, 8, 255, rng.randint(1, 255)]),
           'dt_gap_ms': rng.choice([(0, 0), (0, 5), (50, 190)]),
           'bam_gap_ms': rng.choice([(50, 50), (50, 200), (150, 200)] if not fd else [(10, 10), (10, 200), (150, 200)])}
    if length > 600:        # keep virtual durations sane for long messages
        pol['reply_ms'] = (0, 5)
        pol['dt_gap_ms'] = (0, 2)
        pol['hold_gap_ms'] = (1, 50)
    scn = base(dll, role, mode, length, s_addr=a, p_addr=b, policy=pol, fill=rng.randrange(1 << 16), prio=rng.randrange(8),
               dp=rng.choice([0, 0, 1]), pf=pf, ps=ps, max_cmdt=rng.choice(gen.WINDOWS))
    scn['kernel'] = gen.draw_kernel(rng)
    scn['latency'] = {'kind': 'const', 'ns': rng.choice([1000, 100_000, 1_000_000, 5_000_000])}
    if role == 'orig' and pol['reply_ms'] == (0, 0) and rng.random() < 0.5:
        # reply latency 0 taken literally: a zero-latency bus and a peer that answers inside its frame handler, so that its CTS /
        # acknowledgement is processed before the stack's own send call has returned
        scn['latency'] = {'kind': 'zero'}
        scn['peer']['policy']['sync_reply'] = True
    if rng.random() < 0.15:
        scn['stacks'][0]['rts_cts_interval'] = rng.choice([0.001, 0.01])
    return scn


def execute(scn, keep_log=False, hook=None):
    w = World(scn, keep_log=keep_log)
    sim, bus = w.sim, w.bus
    st = w.stacks['S']
    cfg = st.cfg
    fd = cfg['dll'] == 'j1939-22'
    a = cfg['cas'][0]['addr']
    b = scn['peer']['addr']
    pol = copy.deepcopy(scn['peer'].get('policy') or {})
    for k in ('reply_ms', 'holds', 'hold_gap_ms', 'dt_gap_ms', 'bam_gap_ms'):
        if k in pol:
            pol[k] = tuple(pol[k])
    peer = RefPeer(sim, bus, 'P', b, fd=fd, seed=scn['seed'], policy=pol)
    role, mode = scn['role'], scn['mode']
    data = payload(scn['fill'], scn['len'])
    da_of_msg = 255 if mode == 'bam' else (b if role == 'orig' else a)
    ps = scn['ps'] if mode == 'bam' else da_of_msg
    pgn = rc.sae_pgn(scn['dp'], scn['pf'], ps)
    viol = []
    stats = {'orig_runs': int(role == 'orig'), 'resp_runs': int(role == 'resp'), 'fd_runs': int(fd), 'bam_runs': int(mode == 'bam'),
             'holds_sent': 0, 'cts_sent': 0}
    t0 = sim.now
    sim.run_for(0.02)
    f = {'role': role, 'mode': mode}
    if role == 'orig':
        ok = st.cas[0].send_pgn(scn['dp'], scn['pf'], ps, scn['prio'], list(data))
        if ok is not True:
            viol.append({'clause': 'send-refused', 'rank': 2, 'msg': 'send_pgn returned %r' % (ok,), 'feat': f})
    else:
        peer.send_message(da_of_msg, scn['dp'], scn['pf'], ps, data, scn['prio'])
    per = 60 if fd else 7
    npk = (scn['len'] + per - 1) // per
    gap = max(pol.get('bam_gap_ms', (50, 60))[1], pol.get('dt_gap_ms', (0, 2))[1], pol.get('reply_ms', (0, 5))[1]) / 1000.0
    hold = pol.get('holds', (0, 0))[1] * pol.get('hold_gap_ms', (10, 400))[1] / 1000.0
    if mode == 'bam' and role == 'orig':
        gap = max(gap, cfg.get('bam_interval') or (0.01 if fd else 0.05))
    cap = 1.0 + npk * (gap * 2 + hold + 0.012) * 1.05
    for _ in range(int(cap / 0.1) + 1):
        sim.run_for(0.1)
        if not common.busy(w) and not peer.rx and not peer.tx and sim.now - t0 > 300_000_000:
            break
    sim.run_for(0.2)
    stats['holds_sent'] = peer.stats['holds_sent']
    stats['cts_sent'] = peer.stats['cts_sent']
    viol += common.thread_violations(w)
    # ---- what an independent decoder could not accept from the stack
    for e in peer.protocol_errors[:3]:
        viol.append({'clause': 'wire-format', 'rank': 1, 'msg': 'reference decoder: ' + e, 'feat': f})
    # ---- identifier fields of every frame the stack emitted
    tp_pfs = (rc.PF_FD_TP_CM, rc.PF_FD_TP_DT) if fd else (rc.PF_TP_CM, rc.PF_TP_DT)
    for fr in bus.frames:
        if fr.src != 'S':
            continue
        i = rc.Id(fr.can_id)
        want_da = 255 if mode == 'bam' else b
        if i.sa != a or i.pf not in tp_pfs or i.ps != want_da or i.dp != 0 or i.edp != 0 or not fr.ext or bool(fr.fd) != fd:
            viol.append({'clause': 'wire-identifier', 'rank': 1, 'feat': f,
                         'msg': 'stack emitted %08X (%r, fd=%s) during a %s transfer %d->%d' % (fr.can_id, i, fr.fd, mode, a if role == 'orig' else b, want_da)})
            break
        if fd and len(fr.data) not in rc.FD_LENGTHS:
            viol.append({'clause': 'wire-format', 'rank': 1, 'feat': f, 'msg': 'illegal CAN FD length %d' % len(fr.data)})
            break
        if not fd and len(fr.data) != 8:
            viol.append({'clause': 'wire-format', 'rank': 1, 'feat': f, 'msg': 'TP frame with %d bytes' % len(fr.data)})
            break
    if role == 'orig':
        rec = [r for r in peer.received if r['via'] in ('cmdt', 'bam')]
        if len(rec) != 1:
            viol.append({'clause': 'not-decoded', 'rank': 2, 'feat': f,
                         'msg': 'reference peer decoded %d messages from the stack frames (expected 1); tx sessions %s' % (len(rec), peer.stats)})
        else:
            r = rec[0]
            if r['pgn'] != pgn or r['sa'] != a or r['da'] != da_of_msg or r['data'] != bytes(data):
                viol.append({'clause': 'decoded-differs', 'rank': 1, 'feat': f,
                             'msg': 'decoded pgn %06X sa %d da %d %d bytes, submitted pgn %06X sa %d da %d %d bytes%s' % (
                                 r['pgn'], r['sa'], r['da'], len(r['data']), pgn, a, da_of_msg, len(data),
                                 '' if r['data'] == bytes(data) else ' (payload differs)')})
        exp, extra = common.Counter(), common.Counter()
        if mode == 'cmdt':
            for sess in range(16):
                extra[('S', 'ca0', pgn, b, bytes(rc.fd_eoma(sess, len(data), npk, pgn) if fd else rc.tp_eoma(len(data), npk, pgn)))] += 1
        viol += common.compare_deliveries(w, exp, extra)
    else:
        exp = common.Counter({('S', 'ca0', pgn, b, bytes(data)): 1})
        for v in common.compare_deliveries(w, exp, common.Counter(), meta={('S', 'ca0', pgn, b, bytes(data)): mode}):
            v.setdefault('feat', {}).update(f)
            viol.append(v)
        if mode == 'cmdt':
            done = [d for d in peer.sent_done]
            if len(done) != 1 or not done[0]['ok']:
                viol.append({'clause': 'not-acknowledged', 'rank': 2, 'feat': f,
                             'msg': 'reference originator did not get an end-of-message acknowledgement: %s' % (done,)})
    viol += common.idle_violations(w)
    if peer.rx or peer.tx:
        viol.append({'clause': 'peer-session-open', 'rank': 3, 'feat': f, 'msg': 'reference peer still has an open session: rx=%s tx=%s' % (list(peer.rx), list(peer.tx))})
    res = {'violations': viol, 'stats': dict(stats, frames=len(bus.frames)), 'nontrivial': len(bus.frames) > 2 and not viol or len(bus.frames) > 2,
           'digest': sim.digest(), 'sim_s': (sim.now - t0) / 1e9,
           'summary': '%s %s %s len=%d frames=%d windows=%s' % (cfg['dll'], role, mode, scn['len'], len(bus.frames), peer.stats['windows'][:8])}
    if keep_log:
        res['log'] = sim.logbuf
    w.close()
    return res


def features(scn, v):
    return {'dll': scn['stacks'][0]['dll']}


def shrink(scn):
    yield from gen.simplify_env(scn)
    per = 7 if scn['stacks'][0]['dll'] == 'j1939-21' else 60
    for n in gen.shrink_int(scn['len'], [per + 2, 2 * per, 2 * per + 1, 3 * per]):
        if n > (8 if per == 7 else 60):
            c = copy.deepcopy(scn)
            c['len'] = n
            yield c
    pol = scn['peer'].get('policy') or {}
    for k, simple in (('reply_ms', [0, 1]), ('holds', [0, 0]), ('dt_gap_ms', [0, 1]), ('hold_gap_ms', [10, 20])):
        if k in pol and list(pol[k]) != simple:
            c = copy.deepcopy(scn)
            c['peer']['policy'][k] = simple
            yield c
    for k in ('window', 'rts_limit'):
        if pol.get(k) not in (None, 255) and not isinstance(pol.get(k), list):
            c = copy.deepcopy(scn)
            c['peer']['policy'][k] = 255
            yield c
    s = scn['stacks'][0]
    if s['max_cmdt'] != 255:
        c = copy.deepcopy(scn)
        c['stacks'][0]['max_cmdt'] = 255
        yield c
    if s.get('rts_cts_interval') is not None:
        c = copy.deepcopy(scn)
        c['stacks'][0]['rts_cts_interval'] = None
        yield c
