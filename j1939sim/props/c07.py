"""C07 - no sequence of received frames can stop, stall or permanently clog the stack."""
import copy

from .. import gen, refcodec as rc
from ..refpeer import RefPeer
from ..world import World, payload
from . import common

ID = 'C07'
LEVEL = 'exploration'
BUDGET = {'quick': (3000, 80.0), 'thorough': (250000, 1500.0)}
RULE = ('one real stack (either data link layer, 1-2 CAs, in half the runs with its own transfers in flight) is fed a generated sequence of '
        '1..60 frames from a protocol-aware alphabet (TP.CM/TP.DT, FD.TP.CM/FD.TP.DT, multi-PG; every control byte incl. undefined, sessions 0..15, '
        'boundary/random size, packet and sequence fields, data lengths 0..8 / 0..64, local/foreign/global destinations, ordinary/own/254/255 sources, '
        'duplicates, coherent session fragments) with gaps from 0 to beyond each timeout, plus reactive frames (abort, CTS, hold, acknowledge for the stack\'s own sessions) processed from inside the stack\'s own k-th transmission; then liveness, timer cadence, release of all sessions and a '
        'well-formed transfer in each direction with the reference peer are checked. non-trivial = at least one injected frame was processed past '
        'the destination filter (it changed a table, caused a transmission, a delivery or an exception); distinct = distinct scenario JSON')
FAULT_COUNTERS = {'hostile / malformed frames fed': 'frames_fed', "reactive frames processed inside the stack's own transmission": 'reactive_frames', 'exceptions raised to the feeding caller': 'notify_exceptions'}
REQUIRED_PROBES = ['frames_fed', 'frames_effective', 'notify_exceptions', 'sessions_opened', 'own_transfer_runs', 'followup_ok', 'reactive_frames']
P_ADDR, Q_ADDR, FOREIGN = 0x42, 0x43, 0x99
PROBE_PERIOD = 0.010
GAPS_US = [0, 0, 0, 100, 1000, 1000, 190_000, 210_000, 490_000, 510_000, 740_000, 760_000, 1_040_000, 1_060_000, 1_240_000, 1_260_000, 2_990_000, 3_010_000]


def _hex(d):
    return bytes(bytearray(d)).hex()


def gen_frames(rng, fd, local, n):
    frames = []
    srcs = [P_ADDR] * 6 + [Q_ADDR, local[0], 254, 255]
    dsts = local * 4 + [FOREIGN, 255, 255]
    pgns = [0xD000, 0xFECA, 0xEF00, 0x0000, 0x1D000, 0xFFFF]

    def gap():
        return rng.choice(GAPS_US) if rng.random() < 0.35 else rng.choice([0, 0, 50, 300, 2000])

    def add(pf, da, sa, data, prio=7, g=None):
        frames.append({'g': gap() if g is None else g, 'id': rc.make_id(prio, 0, pf, da, sa), 'd': _hex(data)})

    def field8():
        return rng.choice([0, 1, 2, 3, 254, 255, rng.randrange(256)])

    while len(frames) < n:
        sa, da = rng.choice(srcs), rng.choice(dsts)
        pgn = rng.choice(pgns)
        c = rng.random()
        if frames and c < 0.08:
            f = dict(rng.choice(frames))
            f['g'] = gap()
            frames.append(f)
            continue
        if not fd:
            if c < 0.30:      # coherent fragment: RTS/BAM then data packets, with omissions, duplicates and overruns
                npk = rng.choice([1, 2, 3, 5])
                size = 7 * npk - rng.randrange(0, 7)
                bam = rng.random() < 0.4
                d = 255 if bam else rng.choice(local)
                add(rc.PF_TP_CM, d, sa, rc.tp_bam(size, npk, pgn) if bam else rc.tp_rts(size, npk, rng.choice([1, 2, 255]), pgn), g=gap())
                seqs = list(range(1, npk + 1))
                r = rng.random()
                if r < 0.25 and seqs:
                    seqs.pop(rng.randrange(len(seqs)))
                elif r < 0.5:
                    seqs.insert(rng.randrange(len(seqs) + 1), rng.choice(seqs))
                elif r < 0.6:
                    seqs += [npk + 1, npk + 2]
                for s in seqs:
                    add(rc.PF_TP_DT, d, sa, rc.tp_dt(s, [s] * 7), g=rng.choice([0, 100, 1000, 60_000, 760_000]))
                if rng.random() < 0.3:
                    add(rc.PF_TP_CM, d, sa, rc.tp_abort(rng.choice([1, 2, 3, 255]), pgn))
            elif c < 0.75:    # single TP.CM with arbitrary fields
                ctrl = rng.choice([16, 17, 17, 17, 19, 32, 255, 0, 18, 20, 254])
                if ctrl in (16, 32):
                    size = rng.choice([0, 1, 8, 9, 14, 1785, 1786, 65535, rng.randrange(65536)])
                    data = [ctrl, size & 0xFF, size >> 8, rng.choice([0, 1, 2, 255, rc.npackets21(size) & 0xFF]), field8()] + rc.pgn3(pgn)
                elif ctrl == 17:
                    data = [17, rng.choice([0, 1, 1, 2, 5, 255]), rng.choice([0, 1, 2, 3, 255]), 0xFF, 0xFF] + rc.pgn3(pgn)
                elif ctrl == 19:
                    data = [19, field8(), field8(), field8(), 0xFF] + rc.pgn3(pgn)
                else:
                    data = [ctrl, field8(), 0xFF, 0xFF, 0xFF] + rc.pgn3(pgn)
                if rng.random() < 0.12:
                    data = data[:rng.randrange(0, 8)]
                add(rc.PF_TP_CM, da, sa, data, prio=rng.choice([7, 7, 0, 3]))
            elif c < 0.95:
                data = [field8()] + [rng.randrange(256) for _ in range(7)]
                if rng.random() < 0.12:
                    data = data[:rng.randrange(0, 8)]
                add(rc.PF_TP_DT, da, sa, data)
            else:
                add(rng.choice([0xD0, 0xFE, 0x00, 0xE8]), da, sa, [rng.randrange(256) for _ in range(rng.randrange(0, 9))])
        else:
            sess = rng.choice([0, 0, 1, 3, 7, 8, 15, rng.randrange(16)])
            if c < 0.30:
                npk = rng.choice([1, 2, 3, 5])
                size = 60 * npk - rng.randrange(0, 60)
                bam = rng.random() < 0.4
                d = 255 if bam else rng.choice(local)
                add(rc.PF_FD_TP_CM, d, sa, rc.fd_bam(sess, size, npk, pgn) if bam else rc.fd_rts(sess, size, npk, rng.choice([1, 2, 255]), pgn), g=gap())
                seqs = list(range(1, npk + 1))
                r = rng.random()
                if r < 0.25 and seqs:
                    seqs.pop(rng.randrange(len(seqs)))
                elif r < 0.5:
                    seqs.insert(rng.randrange(len(seqs) + 1), rng.choice(seqs))
                elif r < 0.6:
                    seqs += [npk + 1]
                for s in seqs:
                    ln = 60 if s < npk else size - 60 * (npk - 1)
                    add(rc.PF_FD_TP_DT, d, sa, rc.fd_dt(sess, s, [s & 0xFF] * max(1, ln)), g=rng.choice([0, 100, 1000, 15_000, 760_000]))
                r = rng.random()
                if r < 0.6:
                    add(rc.PF_FD_TP_CM, d, sa, rc.fd_eoms(sess, size if r < 0.5 else size + 1, npk, pgn), g=rng.choice([0, 1000, 15_000]))
                elif r < 0.75:
                    add(rc.PF_FD_TP_CM, d, sa, rc.fd_abort(sess, rng.choice([1, 2, 3]), pgn))
            elif c < 0.72:
                ctrl = rng.choice([0, 1, 1, 1, 2, 3, 3, 4, 15, 5, 9, 14])
                a24 = rng.choice([0, 1, 60, 61, 0xFFFFFF, rng.randrange(1 << 24)])
                b24 = rng.choice([0, 1, 2, 3, 0xFFFFFF, rng.randrange(1 << 24)])
                data = rc.fd_cm(ctrl, sess, a24, b24, rng.choice([0, 1, 2, 255]), field8(), pgn)
                r = rng.random()
                if r < 0.1:
                    data = data[:rng.randrange(0, 12)]
                elif r < 0.15:
                    data = data + [0] * rng.choice([4, 20, 52])
                add(rc.PF_FD_TP_CM, da, sa, data, prio=rng.choice([7, 7, 0]))
            elif c < 0.88:
                seg = rng.choice([0, 1, 1, 2, 3, 0xFFFFFF, rng.randrange(1 << 24)])
                ln = rng.choice([0, 1, 4, 5, 8, 12, 60, 60, 64]) if rng.random() < 0.5 else 60
                data = ([(sess << 4) | rng.choice([0, 0, 0, 1, 15])] + rc.b24(seg) + [rng.randrange(256) for _ in range(ln)])[:64]
                if rng.random() < 0.1:
                    data = data[:rng.randrange(0, 5)]
                add(rc.PF_FD_TP_DT, da, sa, data)
            elif c < 0.96:
                groups = []
                for _ in range(rng.randint(1, 3)):
                    groups.append((rng.choice(pgns) & 0x3FFFF, [rng.randrange(256) for _ in range(rng.choice([0, 1, 8, 20]))]))
                data = rc.mpg_encode(groups)[:64]
                r = rng.random()
                if r < 0.3:
                    data[3] = rng.choice([0, 60, 200, 255])
                elif r < 0.45:
                    data[0] = rng.randrange(256)
                elif r < 0.55:
                    data = data[:rng.randrange(0, len(data))]
                add(rc.PF_MULTI_PG, da, sa, data, prio=rng.choice([6, 7]))
            else:
                add(rng.choice([rc.PF_TP_CM, rc.PF_TP_DT, 0xD0, 0xFE]), da, sa, [rng.randrange(256) for _ in range(rng.choice([0, 3, 8, 12, 64]))])
    return frames[:n]


def generate(rng, tier, i):
    dll = rng.choice(['j1939-21', 'j1939-22'])
    fd = dll == 'j1939-22'
    ncas = rng.choice([1, 1, 2])
    local = gen.draw_addresses(rng, ncas, exclude=(P_ADDR, Q_ADDR, FOREIGN))
    st = {'name': 'S', 'dll': dll, 'max_cmdt': rng.choice(gen.WINDOWS), 'cas': [{'addr': a} for a in local],
          'via': rng.choice(['notify', 'listener'])}
    if rng.random() < 0.15:
        st['rts_cts_interval'] = rng.choice([0.001, 0.01])
    scn = {'kernel': gen.draw_kernel(rng), 'latency': {'kind': 'const', 'ns': 100_000}, 'stacks': [st]}
    n = rng.choice([1, 2, 3, 5, 8, 13, 20, 30, 45, 60])
    scn['frames'] = gen_frames(rng, fd, local, n)
    own = []
    if rng.random() < 0.5:
        for _ in range(rng.randint(1, 3)):
            bam = rng.random() < 0.3
            own.append({'at_us': rng.choice([0, 0, 500, 20_000, 300_000]), 'ca': rng.randrange(ncas), 'pf': 0xFE if bam else 0xD0,
                        'ps': 0xCA if bam else rng.choice([P_ADDR, P_ADDR, Q_ADDR]),
                        'len': (rng.choice([61, 150, 400]) if fd else rng.choice([9, 20, 60, 200])), 'fill': rng.randrange(1 << 16)})
    scn['own'] = own
    # reactive frames: put on the bus from inside the stack's own k-th transmission, i.e. the peer's answer is processed
    # before the stack's send call has returned (interleaved with its own transmissions)
    react = []
    if own and rng.random() < 0.6:
        for _ in range(rng.randint(1, 3)):
            m = rng.choice(own)
            if m['pf'] == 0xFE:
                continue
            peer, sa = m['ps'], local[m['ca']]
            pgn = 0xD000
            kind = rng.choice(['abort', 'abort', 'cts', 'hold', 'eoma', 'cts_far', 'cts_end', 'rts', 'rts', 'bam'])
            if not fd:
                data = {'abort': rc.tp_abort(rng.choice([1, 2, 3]), pgn), 'cts': rc.tp_cts(rng.choice([1, 2, 255]), rng.choice([1, 2, 3]), pgn),
                        'hold': rc.tp_cts(0, 255, pgn), 'eoma': rc.tp_eoma(m['len'], rc.npackets21(m['len']), pgn),
                        'cts_far': rc.tp_cts(5, 255, pgn), 'cts_end': rc.tp_cts(1, rc.npackets21(m['len']) + 1, pgn),
                        # the peer opens a session of its own at that very moment and then stays silent
                        'rts': rc.tp_rts(30, 5, 255, 0xD500), 'bam': rc.tp_bam(30, 5, 0xFEDA)}[kind]
                pf = rc.PF_TP_CM
            else:
                sess = rng.choice([0, 0, 1])
                data = {'abort': rc.fd_abort(sess, rng.choice([1, 2, 3]), pgn), 'cts': rc.fd_cts(sess, rng.choice([1, 2, 3]), rng.choice([1, 2, 255]), pgn),
                        'hold': rc.fd_cts(sess, 1, 0, pgn), 'eoma': rc.fd_eoma(sess, m['len'], rc.nsegments22(m['len']), pgn),
                        'cts_far': rc.fd_cts(sess, 0x5C4000, 5, pgn), 'cts_end': rc.fd_cts(sess, rc.nsegments22(m['len']) + 1, 1, pgn),
                        'rts': rc.fd_rts(rng.choice([0, 3, 9]), 150, 3, 255, 0xD500), 'bam': rc.fd_bam(rng.choice([0, 2, 7]), 150, 3, 0xFEDA)}[kind]
                pf = rc.PF_FD_TP_CM
            react.append({'on_tx': rng.randrange(0, 8), 'id': rc.make_id(7, 0, pf, 255 if kind == 'bam' else sa, peer), 'd': _hex(data)})
    scn['react'] = react
    # without the 10 ms probe timer nothing but the stack's own wake-ups gets the job thread out of its sleep
    scn['probe_timer'] = rng.random() < 0.6
    return scn


def execute(scn, keep_log=False, hook=None):
    w = World(scn, keep_log=keep_log)
    sim, bus = w.sim, w.bus
    st = w.stacks['S']
    cfg = st.cfg
    fd = cfg['dll'] == 'j1939-22'
    local = [c['addr'] for c in cfg['cas']]
    viol = []
    stats = {'frames_fed': 0, 'frames_effective': 0, 'notify_exceptions': 0, 'sessions_opened': 0, 'own_transfer_runs': int(bool(scn.get('own'))),
             'followup_ok': 0, 'hostile_deliveries': 0, 'stack_tx_frames': 0}
    t0 = sim.now
    fires = []
    probe = scn.get('probe_timer', True)
    if probe:
        st.ecu.add_timer(PROBE_PERIOD, lambda cookie: (fires.append(sim.now), True)[1])
    sim.run_for(0.05)
    feeder = bus.port('X')          # hostile source: frames are injected on the bus from here
    txn = [0]
    reactive_on = [True]
    last_reactive = [0]
    stats['reactive_frames'] = 0

    def on_stack_tx(fr):
        if fr.src != 'S' or not reactive_on[0]:
            return
        k = txn[0]
        txn[0] += 1
        for r in scn.get('react', []):
            if r['on_tx'] == k:
                stats['reactive_frames'] += 1
                last_reactive[0] = sim.now
                bus.send_sync('X', r['id'], True, bytes.fromhex(r['d']), fd)
    bus.post_hooks.append(on_stack_tx)
    base = sim.now
    for m in scn.get('own', []):
        def own_send(m=m):
            try:
                st.cas[m['ca']].send_pgn(0, m['pf'], m['ps'], 6, payload(m['fill'], m['len']))
            except Exception:
                pass
        sim.at(base + m['at_us'] * 1000, own_send, 'op')
    t = base
    states = set()
    max_open = [0]

    def feed(f):
        before = (st.tables(), len(bus.frames), len(w.deliveries), len(st.notify_excs))
        data = bytes.fromhex(f['d'])
        bus.send('X', f['id'], True, data, fd)
        sim.run_until(sim.now + 150_000)      # deliver (const latency 100 us)
        tb = st.tables()
        after = (tb, len(bus.frames) - 1, len(w.deliveries), len(st.notify_excs))
        stats['frames_fed'] += 1
        if after != before:
            stats['frames_effective'] += 1
        if tb['rcv'] + tb['snd'] > max_open[0]:
            max_open[0] = tb['rcv'] + tb['snd']
        states.add(common.abstract_state(w))

    for f in scn['frames']:
        t += f['g'] * 1000 + 200_000
        sim.run_until(t)
        if sim.now > t:
            t = sim.now
        feed(f)
        t = sim.now
    t_last = sim.now
    stats['sessions_opened'] = max_open[0]
    stats['notify_exceptions'] = len(st.notify_excs)
    # ---- after the longest timeout everything opened by that traffic must be released
    sim.run_for(3.0 + 0.3)
    for _ in range(4):
        # a reactive frame may have been processed during the settle phase (triggered by a time-out transmission):
        # the longest time-out counts from the last frame the stack received
        if last_reactive[0] > t_last:
            t_last = last_reactive[0]
            sim.run_until(t_last + 3_300_000_000)
        else:
            break
    reactive_on[0] = False      # the hostile phase (incl. the time-outs it causes) is over
    stats['hostile_deliveries'] = len(w.deliveries)
    stats['stack_tx_frames'] = sum(1 for fr in bus.frames if fr.src == 'S')
    tv = common.thread_violations(w)
    viol += tv
    tb = st.tables()
    if tb['rcv'] or tb['snd'] or tb.get('mpg'):
        viol.append({'clause': 'session-not-released', 'rank': 3, 'msg': 'tables %s %.1f s after the last injected frame' % (tb, (sim.now - t_last) / 1e9)})
    elif fd and (tb.get('bam_free', 4) != 4 or tb.get('rts_free', 8) != 8):
        viol.append({'clause': 'pool-not-restored', 'rank': 3, 'msg': 'session pools %s after the traffic' % (tb,)})
    if not tv:
        for p in st.thread_problems():
            viol.append({'clause': 'job-thread-state', 'rank': 3, 'msg': p})
    # ---- timer cadence throughout
    lmax = scn['kernel']['lmax_ns']
    allowance = int(PROBE_PERIOD * 1e9) + lmax + 1_500_000
    worst = 0
    prev = None
    for x in fires:
        if prev is not None and x - prev > worst:
            worst = x - prev
        prev = x
    if probe and not tv and (not fires or worst > allowance or sim.now - fires[-1] > allowance):
        viol.append({'clause': 'timer-cadence', 'rank': 4,
                     'msg': '10 ms probe timer: worst gap %.3f ms, last firing %.3f ms before the end (allowed %.3f ms)' % (
                         worst / 1e6, (sim.now - (fires[-1] if fires else t0)) / 1e6, allowance / 1e6)})
    # ---- follow-up: a well-formed transfer in each direction with the reference peer
    if not tv:
        peer = RefPeer(sim, bus, 'P', P_ADDR, fd=fd, seed=scn['seed'], policy={'reply_ms': (0, 2), 'window': 255})
        n0 = len(w.deliveries)
        ln = 150 if fd else 30
        d_in = payload(scn['seed'] & 0xFFFF, ln)
        d_out = payload((scn['seed'] >> 4) & 0xFFFF, ln + 5)
        peer.send_message(local[0], 0, 0xD1, local[0], d_in)
        try:
            ok = st.cas[0].send_pgn(0, 0xD2, P_ADDR, 6, list(d_out))
        except Exception as e:
            ok = repr(e)
        sim.run_for(1.0)
        got_in = [d for d in w.deliveries[n0:] if d['stack'] == 'S' and d['l'] == 'ca0' and d['pgn'] == 0xD100]
        if ok is not True:
            viol.append({'clause': 'followup-refused', 'rank': 5, 'msg': 'follow-up send_pgn returned %r' % (ok,)})
        elif not any(r['pgn'] == 0xD200 and r['sa'] == local[0] and r['data'] == bytes(d_out) for r in peer.received):
            viol.append({'clause': 'followup-out-failed', 'rank': 5, 'msg': 'follow-up transfer stack->peer was not received intact (%s)' % (peer.protocol_errors[:2],)})
        if len(got_in) != 1 or got_in[0]['data'] != bytes(d_in) or got_in[0]['sa'] != P_ADDR:
            viol.append({'clause': 'followup-in-failed', 'rank': 5, 'msg': 'follow-up transfer peer->stack: %d deliveries, intact=%s' % (
                len(got_in), bool(got_in) and got_in[0]['data'] == bytes(d_in))})
        if not any(v['clause'].startswith('followup') for v in viol):
            stats['followup_ok'] = 1
        viol += common.thread_violations(w) if not viol else []
        if not viol:
            viol += common.idle_violations(w, 'after follow-up: ')
    res = {'violations': viol, 'stats': stats, 'nontrivial': stats['frames_effective'] > 0, 'digest': sim.digest(),
           'sim_s': (sim.now - t0) / 1e9, 'states': states,
           'summary': '%s via %s: %d frames fed, %d effective, %d exceptions, stack sent %d' % (
               cfg['dll'], cfg.get('via'), stats['frames_fed'], stats['frames_effective'], stats['notify_exceptions'], stats['stack_tx_frames'])}
    if keep_log:
        res['log'] = sim.logbuf
    w.close()
    return res


def features(scn, v):
    return {'dll': scn['stacks'][0]['dll']}


def shrink(scn):
    yield from gen.drop_each(scn, 'frames', 1)
    yield from gen.drop_each(scn, 'own', 0)
    yield from gen.drop_each(scn, 'react', 0)
    k = scn.get('kernel') or {}
    if k.get('lmax_ns') != 5000 or k.get('read_cost_ns') != 1000:
        c = copy.deepcopy(scn)
        c['kernel'] = {'read_cost_ns': 1000, 'lmax_ns': 5000}
        yield c
    for i, f in enumerate(scn['frames']):
        if f['g'] not in (0, 1000):
            for g in (0, 1000):
                c = copy.deepcopy(scn)
                c['frames'][i]['g'] = g
                yield c
    s = scn['stacks'][0]
    if len(s['cas']) > 1:
        c = copy.deepcopy(scn)
        c['stacks'][0]['cas'] = s['cas'][:1]
        for m in c.get('own', []):
            m['ca'] = 0
        yield c
    if s['max_cmdt'] != 1:
        c = copy.deepcopy(scn)
        c['stacks'][0]['max_cmdt'] = 1
        yield c
    if s.get('rts_cts_interval') is not None:
        c = copy.deepcopy(scn)
        c['stacks'][0]['rts_cts_interval'] = None
        yield c
    for i, m in enumerate(scn.get('own', [])):
        if m['at_us']:
            c = copy.deepcopy(scn)
            c['own'][i]['at_us'] = 0
            yield c
