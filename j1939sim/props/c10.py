"""C10 - transport capacity is conserved over any history of good and failed transfers."""
import copy

from .. import gen, refcodec as rc
from ..refpeer import RefPeer
from ..world import World, payload
from . import common

ID = 'C10'
LEVEL = 'exploration'
BUDGET = {'quick': (8000, 80.0), 'thorough': (100000, 1500.0)}
CHUNK = 10
RULE = ('one real stack (1-2 CAs) and 2-3 reference peers; a generated history of 1..40 transfers mixing directions, peers, sizes and outcomes '
        '(clean, j-th frame lost, peer aborts at its j-th received frame, peer falls silent, no acknowledgement, second call on a busy pair, '
        'inbound sessions overlapping outbound ones, two submissions the moment the stack has processed a peer\'s abort); after the history the full advertised concurrency is started at once (J1939-21: one transfer '
        'per (SA,DA) pair; J1939-22: 8 RTS/CTS + 4 BAM plus one call beyond each) while the peers open inbound sessions with colliding session '
        'numbers (in some J1939-22 runs the receivers hold the final batch open while inbound sessions with the same numbers time out). non-trivial = at least one history step ended in a failure outcome that actually fired; distinct = distinct scenario JSON')
FAULT_COUNTERS = {'drop (frame lost)': 'fault_drop', 'peer aborts': 'peer_aborts', 'failed outcomes fired (lost frame / abort / silent peer / no acknowledge)': 'failed_outcomes_fired', 'second call on a busy pair': 'refused_busy_pair', 'inbound sessions overlapping outbound ones': 'inbound_overlaps'}
REQUIRED_PROBES = ['steps', 'failed_outcomes_fired', 'peer_aborts', 'refused_busy_pair', 'final_batches_ok', 'inbound_overlaps', 'stalled_inbound', 'bursts_after_abort']
PEERS = {'P1': 0x41, 'P2': 0x42, 'P3': 0x43}


def generate(rng, tier, i):
    dll = rng.choice(['j1939-21', 'j1939-22'])
    fd = dll == 'j1939-22'
    ncas = rng.choice([1, 2])
    local = gen.draw_addresses(rng, ncas, exclude=tuple(PEERS.values()))
    st = {'name': 'S', 'dll': dll, 'max_cmdt': rng.choice(gen.WINDOWS), 'cas': [{'addr': a} for a in local]}
    npeers = rng.choice([2, 3])
    scn = {'kernel': gen.draw_kernel(rng), 'latency': {'kind': 'uniform', 'min_ns': 1000, 'max_ns': rng.choice([50_000, 1_000_000, 5_000_000])},
           'stacks': [st], 'peers': sorted(PEERS)[:npeers]}
    per = 60 if fd else 7
    steps = []
    n = rng.choice([1, 2, 3, 5, 8, 12, 20, 40])
    for _ in range(n):
        ln = rng.choice([per + 2, 2 * per, 3 * per + 1, 5 * per - 1, rng.randrange(per + 2, 12 * per)])
        if rng.random() < 0.7:
            s = {'t': 'out', 'ca': rng.randrange(ncas), 'peer': rng.choice(scn['peers'] + ['bam']), 'len': ln,
                 'outcome': rng.choice(['clean', 'clean', 'drop', 'abort', 'silent', 'noack']), 'j': rng.randint(1, 6)}
            if s['peer'] == 'bam':
                s['outcome'] = rng.choice(['clean', 'clean', 'drop'])
                s['bam_pdu1'] = rng.random() < 0.4
            if s['outcome'] == 'abort' and rng.random() < 0.5:
                s['burst'] = True
                s['j'] = rng.choice([1, 1, s['j']])
            if rng.random() < 0.25:
                s['busy_second'] = True
                s['busy_other_pgn'] = rng.random() < 0.5
            if rng.random() < 0.3:
                s['with_in'] = {'peer': rng.choice(scn['peers']), 'mode': rng.choice(['cmdt', 'bam']), 'len': rng.choice([per + 2, 3 * per]),
                                'ca': rng.randrange(ncas)}
        else:
            s = {'t': 'in', 'peer': rng.choice(scn['peers']), 'mode': rng.choice(['cmdt', 'cmdt', 'bam']), 'len': ln, 'ca': rng.randrange(ncas),
                 'outcome': rng.choice(['clean', 'stop', 'drop']), 'j': rng.randint(1, 5)}
        steps.append(s)
    scn['steps'] = steps
    scn['final_inbound'] = rng.random() < 0.7
    # J1939-22: the final batch is kept open by the receivers while inbound sessions with the same numbers time out
    scn['final_stall'] = fd and rng.random() < 0.4
    return scn


def execute(scn, keep_log=False, hook=None):
    w = World(scn, keep_log=keep_log)
    sim, bus = w.sim, w.bus
    st = w.stacks['S']
    fd = st.cfg['dll'] == 'j1939-22'
    local = [c['addr'] for c in st.cfg['cas']]
    peers = {}
    for k, name in enumerate(scn['peers']):
        peers[name] = RefPeer(sim, bus, name, PEERS[name], fd=fd, seed=scn['seed'] + k, policy={'reply_ms': (0, 3), 'window': None})
    viol = []
    stats = {'steps': 0, 'failed_outcomes_fired': 0, 'peer_aborts': 0, 'refused_busy_pair': 0, 'final_batches_ok': 0, 'inbound_overlaps': 0,
             'clean_delivered': 0, 'stalled_inbound': 0, 'bursts_after_abort': 0}
    t0 = sim.now
    sim.run_for(0.02)
    fillc = [scn['seed'] & 0xFFF]
    states = set()

    def fresh(n):
        fillc[0] += 1
        return payload(fillc[0], n)

    def quiet(limit_s):
        for _ in range(int(limit_s / 0.1) + 1):
            sim.run_for(0.1)
            states.add(common.abstract_state(w))
            if not common.busy(w) and not any(tag == 'peer' for (_t, _s, _f, tag) in sim.heap):
                return True
        return False

    def reset():
        bus.faults = []
        for p in peers.values():
            p.p['abort_at_rx'] = None
            p.p['stop_after_tx'] = None
            p.p['ack'] = True
            p.rx.clear()
            p.tx.clear()

    def inbound(spec):
        p = peers[spec['peer']]
        d = fresh(spec['len'])
        if spec['mode'] == 'bam':
            p.send_message(255, 0, 0xFE, 0xCB, d)
        else:
            p.send_message(local[spec['ca']], 0, 0xD5, local[spec['ca']], d)
        return d

    for si, s in enumerate(scn['steps']):
        if viol:
            break
        stats['steps'] += 1
        fired0 = sum(bus.fired.values())
        if s['t'] == 'out':
            bam = s['peer'] == 'bam'
            p = None if bam else peers[s['peer']]
            da = 255 if bam else PEERS[s['peer']]
            pf, ps = (0xFE, 0xCA) if bam else (0xD0, da)
            if bam and s.get('bam_pdu1'):
                pf, ps = 0xEF, 255          # a PDU1 parameter group broadcast to the global address
            if s['outcome'] == 'drop':
                bus.faults = [{'kind': 'drop', 'k': len(bus.frames) + s['j'] - 1}]
            elif s['outcome'] == 'abort':
                p.p['abort_at_rx'] = p.rx_tp_count + s['j']
            elif s['outcome'] == 'silent':
                p.p['stop_after_tx'] = p.tx_count + s['j'] - 1
            elif s['outcome'] == 'noack':
                p.p['ack'] = False
            d = fresh(s['len'])
            aborts0 = sum(1 for x in (p.sent_done if p else []) if not x.get('ok'))
            burst = []
            if s.get('burst') and s['outcome'] == 'abort' and p is not None and len(peers) > 1:
                # the application submits a message to another peer the moment the stack has processed the peer's abort (before the job
                # thread's next pass) and one more a little later, while the first is in flight: both must arrive intact
                other = [x for x in peers.values() if x is not p][0]

                def on_abort(port, fr, other=other, s=s, p=p):
                    i = rc.Id(fr.can_id)
                    is_abort = (i.pf == rc.PF_FD_TP_CM and len(fr.data) >= 12 and (fr.data[0] & 0xF) == rc.FD_ABORT) if fd else (i.pf == rc.PF_TP_CM and fr.data[0] == rc.ABORT)
                    if port.name != 'S' or fr.src != p.name or not is_abort or burst:
                        return
                    stats['bursts_after_abort'] += 1
                    for k, delay in enumerate((0, scn['kernel']['lmax_ns'] + 200_000)):
                        dd = fresh((60 if fd else 7) * 4 + k)
                        burst.append((other, bytes(dd), []))

                        def go(dd=dd, k=k):
                            burst[k][2].append(st.cas[s['ca']].send_pgn(0, 0xD2 + k, other.addr, 6, list(dd)))
                        if delay:
                            sim.after(delay, go, 'op')
                        else:
                            go()
                bus.after_rx.append(on_abort)
            ok = st.cas[s['ca']].send_pgn(0, pf, ps, 6, list(d))
            if ok is not True:
                viol.append({'clause': 'refused-while-free', 'rank': 2, 'feat': {'after': scn['steps'][si - 1]['outcome'] if si else 'start'},
                             'msg': 'step %d: send_pgn returned %r although no transfer on that pair / session pool is in use' % (si, ok)})
                break
            if s.get('busy_second') and not fd:
                n0 = len(bus.frames)
                # another parameter group for the same (SA,DA) pair (other PF for a destination-specific message, other
                # group extension for a broadcast): the pair is busy all the same
                pf2, ps2 = (pf, ps) if not s.get('busy_other_pgn') else (((0xD3, 255) if ps == 255 else (pf, 0xCB)) if bam else (0xD1, ps))
                ok2 = st.cas[s['ca']].send_pgn(0, pf2, ps2, 6, list(fresh(s['len'])))
                if ok2 is not False:
                    viol.append({'clause': 'accepted-on-busy-pair', 'rank': 2, 'msg': 'step %d: second send_pgn on a busy (SA,DA) pair returned %r' % (si, ok2)})
                elif len(bus.frames) != n0:
                    viol.append({'clause': 'refused-call-emitted-frames', 'rank': 1, 'msg': 'step %d: refused send_pgn emitted %d frames' % (si, len(bus.frames) - n0)})
                else:
                    stats['refused_busy_pair'] += 1
            if s.get('with_in'):
                stats['inbound_overlaps'] += 1
                inbound(s['with_in'])
            if not quiet(6.0):
                viol.append({'clause': 'session-not-released', 'rank': 3, 'feat': {'outcome': s['outcome']},
                             'msg': 'step %d (%s): stack or peer still busy 6 s later: %s' % (si, s['outcome'], st.tables())})
                break
            bus.after_rx.clear()
            if burst:
                for k, (other, dd, oks) in enumerate(burst):
                    # (J1939-21: the second message meets a busy pair and may be refused)
                    if oks and oks[0] is True and sum(1 for r in other.received if r['data'] == dd) != 1:
                        viol.append({'clause': 'transfer-after-abort-lost', 'rank': 2, 'feat': {'k': k},
                                     'msg': 'step %d: message %d submitted right after the peer\'s abort was accepted but received %d time(s); peer errors %s' % (
                                         si, k, sum(1 for r in other.received if r['data'] == dd), other.protocol_errors[:1])})
                    elif oks and oks[0] is not True and (fd or k == 0):
                        viol.append({'clause': 'refused-while-free', 'rank': 2, 'feat': {'after': 'abort-burst'}, 'msg': 'step %d: message %d right after the abort was refused (%r)' % (si, k, oks[0])})
            if s['outcome'] == 'clean' and not s.get('with_in'):
                recs = [r for pp in (peers.values() if bam else [p]) for r in pp.received if r['data'] == bytes(d)]
                if len(recs) != (len(peers) if bam else 1):
                    viol.append({'clause': 'clean-transfer-lost', 'rank': 2, 'feat': {'after': scn['steps'][si - 1]['outcome'] if si else 'start'},
                                 'msg': 'step %d: clean transfer to %s was received %d time(s)' % (si, s['peer'], len(recs))})
                else:
                    stats['clean_delivered'] += 1
            if p is not None and s['outcome'] == 'abort':
                stats['peer_aborts'] += int(p.p['abort_at_rx'] is not None and p.rx_tp_count >= p.p['abort_at_rx'])
        else:
            p = peers[s['peer']]
            if s['outcome'] == 'drop':
                bus.faults = [{'kind': 'drop', 'k': len(bus.frames) + s['j'] - 1}]
            elif s['outcome'] == 'stop':
                p.p['stop_after_tx'] = p.tx_count + s['j']
            n0 = len(w.deliveries)
            d = inbound(s)
            if not quiet(6.0):
                viol.append({'clause': 'session-not-released', 'rank': 3, 'feat': {'outcome': 'in-' + s['outcome']},
                             'msg': 'step %d (inbound %s): stack still busy 6 s later: %s' % (si, s['outcome'], st.tables())})
                break
            if s['outcome'] == 'clean' and not any(x['data'] == bytes(d) for x in w.deliveries[n0:]):
                viol.append({'clause': 'clean-inbound-lost', 'rank': 2, 'msg': 'step %d: clean inbound transfer was not delivered' % si})
        if s['outcome'] != 'clean':
            stopped = s['outcome'] in ('silent', 'stop', 'noack', 'abort')
            if sum(bus.fired.values()) > fired0 or stopped:
                stats['failed_outcomes_fired'] += 1
        reset()
        sim.run_for(0.05)
        tv = common.thread_violations(w)
        if tv:
            viol += tv
            break

    # ---- after the history: idle, then the full advertised concurrency at once
    if not viol:
        viol += common.idle_violations(w, 'after the history: ')
    if not viol:
        reset()
        for p in peers.values():
            p.received.clear()
        expect = []     # (peer name or 'bam', data)
        if scn.get('final_inbound'):
            for k, name in enumerate(scn['peers']):
                for r in range(3 if fd else 1):
                    inbound({'peer': name, 'mode': 'cmdt', 'len': (60 if fd else 7) * 3 + 1 + r, 'ca': k % len(local)})
        n0 = len(bus.frames)
        stall = fd and scn.get('final_stall')
        if stall:
            # the receivers keep the stack's outbound sessions open with holds for about 2 s ...
            for p in peers.values():
                p.p['holds'] = (5, 5)
                p.p['hold_gap_ms'] = (400, 400)
        if fd:
            plan = [('cmdt', scn['peers'][k % len(scn['peers'])], k % len(local)) for k in range(8)] + [('bam', 'bam', k % len(local)) for k in range(4)]
            for kind, name, ca in plan:
                d = fresh(200 + len(expect))
                pf, ps = (0xFE, 0xCA) if kind == 'bam' else (0xD0, PEERS[name])
                ok = st.cas[ca].send_pgn(0, pf, ps, 6, list(d))
                if ok is not True:
                    viol.append({'clause': 'capacity-lost', 'rank': 2, 'feat': {'kind': kind},
                                 'msg': 'final batch: %s session %d of %d refused (%r) after the history' % (kind, len(expect) + 1, len(plan), ok)})
                    break
                expect.append((name, bytes(d)))
            if not viol and stall:
                # ... while inbound sessions (session numbers 0..3, the numbers of the stack's own sessions) opened by a node that then
                # falls silent time out: that must not free any outbound session number
                for sn in range(4):
                    bus.send('X', rc.make_id(7, 0, rc.PF_FD_TP_CM, local[sn % len(local)], 0x77), True, bytes(rc.fd_rts(sn, 130, 3, 255, 0xD600)), True)
                sim.run_for(1.6)
                stats['stalled_inbound'] += 1
                for p in peers.values():
                    p.p['holds'] = (0, 0)
            if not viol:
                for kind in (('cmdt',) if stall else ('cmdt', 'bam')):
                    nf = len(bus.frames)
                    pf, ps = (0xFE, 0xCA) if kind == 'bam' else (0xD0, PEERS[scn['peers'][0]])
                    ok = st.cas[0].send_pgn(0, pf, ps, 6, list(fresh(300)))
                    if ok is not False:
                        viol.append({'clause': 'accepted-beyond-capacity', 'rank': 2, 'feat': {'kind': kind}, 'msg': 'final batch: extra %s call returned %r' % (kind, ok)})
                    elif len(bus.frames) != nf:
                        viol.append({'clause': 'refused-call-emitted-frames', 'rank': 1, 'msg': 'final batch: refused call emitted frames'})
        else:
            for ca in range(len(local)):
                for name in scn['peers'] + ['bam']:
                    d = fresh(30 + len(expect))
                    pf, ps = (0xFE, 0xCA) if name == 'bam' else (0xD0, PEERS[name])
                    ok = st.cas[ca].send_pgn(0, pf, ps, 6, list(d))
                    if ok is not True:
                        viol.append({'clause': 'capacity-lost', 'rank': 2, 'feat': {'kind': 'bam' if name == 'bam' else 'cmdt'},
                                     'msg': 'final batch: transfer %d->%s refused (%r) after the history' % (local[ca], name, ok)})
                        break
                    expect.append((name, bytes(d)))
                    ok2 = st.cas[ca].send_pgn(0, pf, ps, 6, list(fresh(20)))
                    if ok2 is not False:
                        viol.append({'clause': 'accepted-on-busy-pair', 'rank': 2, 'msg': 'final batch: second call on busy pair returned %r' % (ok2,)})
        if not viol:
            quiet(8.0)
            for name, d in expect:
                targets = list(peers.values()) if name == 'bam' else [peers[name]]
                for p in targets:
                    c = sum(1 for r in p.received if r['data'] == d)
                    if c != 1:
                        viol.append({'clause': 'final-batch-not-delivered', 'rank': 2, 'feat': {'kind': 'bam' if name == 'bam' else 'cmdt'},
                                     'msg': 'final batch: message of %d bytes to %s received %d time(s) by %s; peer errors %s' % (len(d), name, c, p.name, p.protocol_errors[:1])})
                        break
                if viol:
                    break
            viol += common.thread_violations(w)
            if not viol:
                viol += common.idle_violations(w, 'after the final batch: ')
            if not viol:
                stats['final_batches_ok'] = 1
    stats['fault_drop'] = bus.fired.get('drop', 0)
    res = {'violations': viol[:4], 'stats': dict(stats, frames=len(bus.frames)), 'nontrivial': stats['failed_outcomes_fired'] > 0,
           'digest': sim.digest(), 'sim_s': (sim.now - t0) / 1e9, 'states': states,
           'summary': '%s %d steps (%s), %d frames' % (st.cfg['dll'], len(scn['steps']), ','.join(x.get('outcome', '?') for x in scn['steps'][:10]), len(bus.frames))}
    if keep_log:
        res['log'] = sim.logbuf
    w.close()
    return res


def features(scn, v):
    return {'dll': scn['stacks'][0]['dll']}


def shrink(scn):
    yield from gen.drop_each(scn, 'steps', 0)
    for i, s in enumerate(scn['steps']):
        for key in ('with_in', 'busy_second', 'burst'):
            if s.get(key):
                c = copy.deepcopy(scn)
                del c['steps'][i][key]
                yield c
        if s.get('outcome') != 'clean':
            c = copy.deepcopy(scn)
            c['steps'][i]['outcome'] = 'clean'
            yield c
        per = 7 if scn['stacks'][0]['dll'] == 'j1939-21' else 60
        if s['len'] > per + 2:
            c = copy.deepcopy(scn)
            c['steps'][i]['len'] = per + 2
            yield c
        if s.get('j', 1) > 1:
            c = copy.deepcopy(scn)
            c['steps'][i]['j'] = s['j'] - 1
            yield c
    for flag in ('final_inbound', 'final_stall'):
        if scn.get(flag):
            c = copy.deepcopy(scn)
            c[flag] = False
            yield c
    k = scn.get('kernel') or {}
    if k.get('lmax_ns') != 5000 or k.get('read_cost_ns') != 1000:
        c = copy.deepcopy(scn)
        c['kernel'] = {'read_cost_ns': 1000, 'lmax_ns': 5000}
        yield c
    s = scn['stacks'][0]
    if len(s['cas']) > 1:
        c = copy.deepcopy(scn)
        c['stacks'][0]['cas'] = s['cas'][:1]
        for x in c['steps']:
            x['ca'] = 0
            if x.get('with_in'):
                x['with_in']['ca'] = 0
        yield c
    if s['max_cmdt'] != 255:
        c = copy.deepcopy(scn)
        c['stacks'][0]['max_cmdt'] = 255
        yield c
