"""C16 - diagnostic trouble codes and lamp states arrive exactly as sent (DM1, DTC, DM22)."""
import copy
import random

from .. import gen, refcodec as rc
from ..world import World
from . import common

ID = 'C16'
LEVEL = 'exploration'
BUDGET = {'quick': (5000, 80.0), 'thorough': (120000, 1500.0)}
CHUNK = 20
RULE = ('a DM1 sender (Dm1.start_send with cycle 50 ms..2 s) whose callback supplies, per cycle, lamp states from all 5^4 combinations and 1..400 trouble codes with '
        'SPN/FMI/OC over their full ranges (boundaries over-weighted); 1-2 receiver stacks with Dm1.subscribe and a raw listener; both data link layers so the message '
        'travels as single frame, BAM, FD multi-PG or FD BAM; start_send/stop_send histories; DM22 individual-clear requests. The raw payload on the receiving stack is '
        'decoded by the independent J1939-73 codec. non-trivial = at least one DM1 message was delivered; distinct = distinct scenario JSON')
FAULT_COUNTERS = {'stop_send calls': 'stops', 'stop_send called from inside the supplier callback': 'stops_in_callback'}
REQUIRED_PROBES = ['dm1_cycles', 'dm1_deliveries', 'single_frame_msgs', 'bam_msgs', 'mpg_msgs', 'fd_bam_msgs', 'stops', 'dm22_frames', 'spn_above_16bit', 'companion_runs', 'stops_in_callback']
T_ADDR = 0x3A
T2_ADDR = 0x3B
SPNS = [0, 1, 0xFFFF, 0x10000, 0x10001, 0x40000, 0x7FFFF, 0x7FFFE, 0x5A5A5]
NDTC = [1, 1, 2, 3, 14, 15, 40, 100, 400]


def content(seed, k, n):
    r = random.Random(seed * 1009 + k)
    lamps = {key: r.randrange(5) for key in rc.LAMPS}
    dtcs = []
    for _ in range(n):
        spn = r.choice(SPNS) if r.random() < 0.4 else r.getrandbits(19)
        fmi = r.choice([0, 1, 31, r.getrandbits(5)])
        oc = r.choice([0, 1, 126, 127, r.getrandbits(7)])
        dtcs.append({'spn': spn, 'fmi': fmi, 'oc': oc})
    return lamps, dtcs


def generate(rng, tier, i):
    dll = rng.choice(['j1939-21', 'j1939-22'])
    fd = dll == 'j1939-22'
    n = rng.choice(NDTC)
    stacks = [{'name': 'T', 'dll': dll, 'max_cmdt': 1, 'cas': [{'addr': T_ADDR}]}]
    for k in range(rng.choice([1, 1, 2])):
        stacks.append({'name': 'R%d' % k, 'dll': dll, 'max_cmdt': 1, 'cas': [{'addr': 0x50 + k}], 'ecu_listeners': [None]})
    if rng.random() < 0.3:
        for s in stacks:
            s['bam_interval'] = rng.choice([0.01, 0.02, 0.1])
    hist = []
    length = 2 + 4 * n
    biv = stacks[0].get('bam_interval') or (0.01 if fd else 0.05)
    if (not fd and length > 8) or (fd and length > 60):
        dur_ms = int(((length + (59 if fd else 6)) // (60 if fd else 7) + 2) * biv * 1000)
    else:
        dur_ms = 0
    for _ in range(rng.choice([1, 1, 2, 3])):
        cyc = rng.choice([50, 100, 250, 1000, 2000])
        hist.append({'op': 'start', 'cycle_ms': cyc})
        w = int(cyc * rng.choice([1.5, 2.5, 3.5]))
        if dur_ms >= cyc and rng.random() < 0.7:
            w = max(w, int(dur_ms * rng.choice([1.3, 2.4])) + 2 * cyc)      # long enough for a second transfer after a busy cycle
        hist.append({'op': 'wait', 'ms': w})
        if rng.random() < 0.8:
            hist.append({'op': 'stop', 'in_callback': rng.random() < 0.3})
            hist.append({'op': 'wait', 'ms': int(cyc * rng.choice([1.2, 2.5]))})
    companion = rng.random() < 0.4
    if companion:
        # a second CA on the sending ECU with its own cyclic DM1 (one trouble code, 100 ms), switched on for the whole run
        stacks[0]['cas'].append({'addr': T2_ADDR})
    scn = {'kernel': gen.draw_kernel(rng), 'latency': gen.draw_latency(rng, not fd, [s['name'] for s in stacks]), 'stacks': stacks, 'ndtc': n, 'companion': companion,
           'content_seed': rng.randrange(1 << 20), 'history': hist, 'reuse_objects': rng.random() < 0.4, 'bound_method_callback': rng.random() < 0.4, 'resubscribe': rng.random() < 0.3,
           'dm22': [{'act': rng.random() < 0.5, 'spn': rng.choice(SPNS + [rng.getrandbits(19)]), 'fmi': rng.getrandbits(5), 'dest': rng.choice([0x50, 255])}
                    for _ in range(rng.choice([0, 1, 2]))]}
    return scn


def execute(scn, keep_log=False, hook=None):
    w = World(scn, keep_log=keep_log)
    j = w.j
    sim, bus = w.sim, w.bus
    T = w.stacks['T']
    fd = T.cfg['dll'] == 'j1939-22'
    ca = T.cas[0]
    viol = []
    stats = {k: 0 for k in REQUIRED_PROBES}
    t0 = sim.now
    sim.run_for(0.01)
    n = scn['ndtc']
    length = 2 + 4 * n
    bam_iv = T.cfg.get('bam_interval') or (0.01 if fd else 0.05)
    if not fd:
        mode = 'single' if length <= 8 else 'bam'
        duration = 0 if mode == 'single' else ((length + 6) // 7 + 1) * bam_iv
    else:
        mode = 'mpg' if length <= 60 else 'fd_bam'
        duration = 0 if mode == 'mpg' else ((length + 59) // 60 + 2) * bam_iv
    invocations = []     # (t, k, lamps, dtcs)
    kept = []            # (receiver, the lamp dict and code list handed to the subscriber, copies taken at that moment)
    sub_calls = {}       # receiver -> list of (t, sa, lamps, dtcs)
    dm1_tx = j.Dm1(ca)
    receivers = [s for s in w.stacks.values() if s.name != 'T']
    for r in receivers:
        d = j.Dm1(r.cas[0])
        sub_calls[r.name] = []
        def listener(sa, lamps, dtcs, ts, name=r.name):
            sub_calls[name].append((sim.now, sa, dict(lamps), [dict(x) for x in dtcs]))
            kept.append((name, lamps, dtcs, dict(lamps), [dict(x) for x in dtcs]))      # a subscriber that keeps what it was given
        if scn.get('resubscribe'):
            # a listener that was registered, removed and registered again before any traffic is a subscriber like any other
            d.subscribe(listener)
            d.unsubscribe(listener)
        d.subscribe(listener)

    live_lamps, live_dtcs = {}, []
    incb = {'armed': False, 'at': None}

    def supplier():
        k = len(invocations)
        lamps, dtcs = content(scn['content_seed'], k, n)
        invocations.append((sim.now, k, lamps, dtcs))
        stats['dm1_cycles'] += 1
        stats['spn_above_16bit'] += sum(1 for x in dtcs if x['spn'] > 0xFFFF)
        if incb['armed']:
            # the application switches the cyclic sending off from inside its own supplier callback
            incb['armed'] = False
            dm1_tx.stop_send(cb())
            incb['at'] = sim.now
            stats['stops_in_callback'] += 1
        if scn.get('reuse_objects'):
            # an application that keeps one lamp dict and one code list and updates them in place
            live_lamps.clear()
            live_lamps.update(lamps)
            live_dtcs[:] = [dict(x) for x in dtcs]
            return live_lamps, live_dtcs
        return dict(lamps), [dict(x) for x in dtcs]

    # ---- bus monitor: instants at which a *new* DM1 message starts
    starts = []
    companion_tx = []

    def observe(fr):
        if fr.src != 'T':
            return
        i = rc.Id(fr.can_id)
        if i.sa == T2_ADDR:
            if (i.pf == 0xFE and i.ps == 0xCA) or (fd and i.pf == rc.PF_MULTI_PG):
                companion_tx.append(fr.t)
            return
        if i.pf == 0xFE and i.ps == 0xCA:
            starts.append((fr.t, 'single'))
        elif not fd and i.pf == rc.PF_TP_CM and fr.data[0] == rc.BAM and rc.le24(fr.data, 5) == 0xFECA:
            starts.append((fr.t, 'bam'))
        elif fd and i.pf == rc.PF_FD_TP_CM and (fr.data[0] & 0xF) == rc.FD_BAM and rc.le24(fr.data, 9) == 0xFECA:
            starts.append((fr.t, 'fd_bam'))
        elif fd and i.pf == rc.PF_MULTI_PG:
            try:
                groups, _ = rc.mpg_decode(fr.data)
            except ValueError:
                groups = []
            if any(cpgn == 0xFECA for (_a, _b, cpgn, _p) in groups):
                starts.append((fr.t, 'mpg'))
    bus.observers.append(observe)

    class App:
        # an application object: its bound method is a new (but equal) object on every attribute access
        def supply(self):
            return supplier()
    app = App()

    def cb():
        return app.supply if scn.get('bound_method_callback') else supplier
    t_comp = None
    if scn.get('companion') and len(T.cas) > 1:
        dm1_b = j.Dm1(T.cas[1])
        comp_content = ({key: 1 for key in rc.LAMPS}, [{'spn': 0x1234, 'fmi': 5, 'oc': 1}])

        def comp_supplier():
            return dict(comp_content[0]), [dict(x) for x in comp_content[1]]
        dm1_b.start_send(comp_supplier, 0.1)
        t_comp = sim.now
    segments = []        # (t_start, cycle_ns, t_stop or None)
    own_message_after = []      # stop instants inside the supplier callback: the message of that very invocation still goes out
    cur = None
    for h in scn['history']:
        if h['op'] == 'start':
            if cur is not None:
                continue
            cur = [sim.now, h['cycle_ms'] * 1_000_000, None]
            dm1_tx.start_send(cb(), h['cycle_ms'] / 1000.0)
        elif h['op'] == 'stop':
            if cur is None:
                continue
            if h.get('in_callback'):
                incb['armed'], incb['at'] = True, None
                sim.run_for(cur[1] / 1e9 + 0.02)          # until the next invocation of the supplier has done it
                if incb['at'] is None:
                    incb['armed'] = False                 # (no invocation came: the pair was busy; stop from outside after all)
                    dm1_tx.stop_send(cb())
                    cur[2] = sim.now
                else:
                    cur[2] = incb['at']
                    own_message_after.append(incb['at'])
            else:
                dm1_tx.stop_send(cb())
                cur[2] = sim.now
            stats['stops'] += 1
            segments.append(tuple(cur))
            cur = None
        else:
            sim.run_for(h['ms'] / 1000.0)
    t_hist_end = sim.now
    if cur is not None:
        # leave it running; judge up to now
        segments.append((cur[0], cur[1], None))
    sim.run_for(duration + 0.3)
    viol += common.thread_violations(w)
    lmax = scn['kernel']['lmax_ns']
    eps = 200 * scn['kernel']['read_cost_ns'] + 50_000 + n * 40 * scn['kernel']['read_cost_ns']

    # ---- the other sender on the same ECU keeps its own cycle whatever is started and stopped next to it
    if t_comp is not None:
        stats['companion_runs'] += 1
        marks = [t_comp] + [t for t in companion_tx if t <= t_hist_end] + [t_hist_end]
        worst = max(b - a for a, b in zip(marks, marks[1:]))
        if worst > 100_000_000 + lmax + eps + 30_000_000:
            viol.append({'clause': 'other-sender-stopped', 'rank': 2, 'msg': 'the DM1 sender of the second CA on the ECU (cycle 100 ms, never stopped) sent nothing for %.0f ms' % (worst / 1e6)})
    # ---- no new DM1 message after stop_send returned; cycles spaced by the cycle time
    for (ts, cyc, te) in segments:
        end = te if te is not None else t_hist_end
        expected_k = (end - ts - lmax - eps) // cyc       # number of cycles that must have started in this segment
        mine = [t for (t, _m) in starts if ts < t <= (te if te is not None else t_hist_end)]
        if te is not None:
            nxt = min([s[0] for s in segments if s[0] >= te] + [sim.now + 1])
            late = [t for (t, _m) in starts if te < t < nxt]
            if te in own_message_after and late and late[0] - te < lmax + eps + 1_000_000:
                late = late[1:]
            if late:
                viol.append({'clause': 'dm1-after-stop', 'rank': 2, 'msg': '%d new DM1 message(s) started after stop_send returned, the first %.3f ms later' % (len(late), (late[0] - te) / 1e6)})
        # the cyclic transmission never dies while it is switched on: a new DM1 starts at the latest one cycle after the
        # broadcast pair became free again (a cycle that finds the pair busy is skipped, the next one must send)
        marks = [ts] + mine + [end]
        for a, b in zip(marks, marks[1:]):
            # (also for the first cycle of a segment: a transfer announced before the previous stop_send may still be finishing)
            npk_est = int(duration / bam_iv) + 2 if duration else 0
            allowed = int(duration * 1e9) + npk_est * (lmax + 200_000) + cyc + lmax + eps + 20_000_000
            if b - a > allowed:
                viol.append({'clause': 'dm1-cycles-stopped', 'rank': 2, 'feat': {'mode': mode},
                             'msg': 'cycle %d ms, transfer time %.0f ms: no new DM1 message for %.0f ms although sending was switched on' % (
                                 cyc // 1_000_000, duration * 1e3, (b - a) / 1e6)})
                break
        if cyc > duration * 1e9 + 20_000_000:
            if len(mine) < expected_k:
                viol.append({'clause': 'dm1-cycle-missing', 'rank': 3, 'feat': {'mode': mode},
                             'msg': 'cycle %d ms: %d DM1 messages started in %.3f s, expected at least %d' % (cyc // 1_000_000, len(mine), (end - ts) / 1e9, expected_k)})
            for idx, t in enumerate(mine):
                off = (t - ts) % cyc
                if (t - ts) < cyc - 2000 or off > lmax + eps:
                    viol.append({'clause': 'dm1-cycle-timing', 'rank': 4, 'msg': 'cycle %d ms: DM1 message started %.3f ms after start_send (off grid by %.3f ms, allowed %.3f ms)' % (
                        cyc // 1_000_000, (t - ts) / 1e6, off / 1e6, (lmax + eps) / 1e6)})
                    break
    stats[{'single': 'single_frame_msgs', 'bam': 'bam_msgs', 'mpg': 'mpg_msgs', 'fd_bam': 'fd_bam_msgs'}[mode]] += len(starts)

    # ---- what the subscribers got: an increasing subsequence of the supplied contents, complete where cycle > transfer time
    must_all = all(cyc > duration * 1e9 + 20_000_000 for (_a, cyc, _b) in segments)
    for r in receivers:
        calls = sub_calls[r.name]
        stats['dm1_deliveries'] += len(calls)
        pos = 0
        matched = 0
        for (t, sa, lamps, dtcs) in calls:
            if sa == T2_ADDR and scn.get('companion'):
                continue
            found = None
            for k in range(pos, len(invocations)):
                if invocations[k][2] == lamps and invocations[k][3] == dtcs:
                    found = k
                    break
            if found is None or sa != T_ADDR:
                # describe the first difference against the next expected content
                want = invocations[pos] if pos < len(invocations) else None
                what = 'no such content was supplied'
                if want is not None:
                    if want[2] != lamps:
                        what = 'lamps %s, supplied %s' % (lamps, want[2])
                    elif len(want[3]) != len(dtcs):
                        what = '%d trouble codes, supplied %d' % (len(dtcs), len(want[3]))
                    else:
                        for a, b in zip(dtcs, want[3]):
                            if a != b:
                                what = 'trouble code %s, supplied %s' % (a, b)
                                break
                viol.append({'clause': 'dm1-content', 'rank': 1, 'feat': {'mode': mode}, 'msg': '%s received a DM1 from %d that was not sent: %s' % (r.name, sa, what)})
                break
            pos = found + 1
            matched += 1
        finished = [inv for inv in invocations if inv[0] + int(duration * 1e9) + 30_000_000 < sim.now]
        if not viol and must_all and matched < len(finished):
            viol.append({'clause': 'dm1-not-received', 'rank': 2, 'feat': {'mode': mode},
                         'msg': '%s received %d of %d DM1 messages (%d trouble codes, %s)' % (r.name, matched, len(finished), n, mode)})
        if not viol and not must_all and invocations and matched == 0 and finished:
            viol.append({'clause': 'dm1-not-received', 'rank': 2, 'feat': {'mode': mode}, 'msg': '%s received none of the DM1 messages (%d trouble codes, %s)' % (r.name, n, mode)})
    # ---- what a subscriber was given for one cycle is not rewritten by later cycles
    for (name, lamps, dtcs, lamps0, dtcs0) in kept:
        if dict(lamps) != lamps0 or [dict(x) for x in dtcs] != dtcs0:
            viol.append({'clause': 'dm1-received-objects-rewritten', 'rank': 2,
                         'msg': 'the lamp dict / trouble code list %s received for one DM1 was changed by the library afterwards (now %d codes, first %s; was %d codes, first %s)' % (
                             name, len(dtcs), dict(dtcs[0]) if dtcs else None, len(dtcs0), dtcs0[0] if dtcs0 else None)})
            break
    # ---- raw payload on the receiving stack, decoded independently (bit positions of J1939-73)
    raw = [d for d in w.deliveries if d['stack'] == 'R0' and d['l'] == 'ecu0' and d['pgn'] == 0xFECA and d['sa'] != T2_ADDR]
    pos = 0
    for d in raw:
        b = d['data']
        ok = False
        for k in range(pos, len(invocations)):
            lamps, dtcs = invocations[k][2], invocations[k][3]
            want = bytes(rc.lamps_encode(lamps) + [x for dt in dtcs for x in rc.dtc_encode(dt['spn'], dt['fmi'], dt['oc'])])
            if b == want or (len(want) < 8 and b[:len(want)] == want and all(x == 0xFF for x in b[len(want):]) and len(b) == 8):
                ok = True
                pos = k + 1
                break
        if not ok:
            viol.append({'clause': 'dm1-wire-bytes', 'rank': 1, 'feat': {'mode': mode},
                         'msg': 'DM1 payload %s... does not decode to any supplied content under the J1939-73 layout' % b[:10].hex()})
            break

    # ---- DM22
    dm22 = j.Dm22(ca)
    for q in scn['dm22']:
        n0 = len(bus.frames)
        if q['act']:
            dm22.request_clear_act_dtc(q['dest'], q['spn'], q['fmi'])
        else:
            dm22.request_clear_pa_dtc(q['dest'], q['spn'], q['fmi'])
        sim.run_for(0.01)
        frs = [f for f in bus.frames[n0:] if f.src == 'T']
        want = bytes([17 if q['act'] else 1, 0xFF, 0xFF, 0xFF, 0xFF] + rc.dtc_encode(q['spn'], q['fmi'], 0)[:3])
        stats['dm22_frames'] += len(frs)
        got = None
        for f in frs:
            i = rc.Id(f.can_id)
            if fd and i.pf == rc.PF_MULTI_PG:
                try:
                    groups, _ = rc.mpg_decode(f.data)
                except ValueError:
                    groups = []
                for (_a, _b, cpgn, pl) in groups:
                    if cpgn == 0xC300 and i.ps == q['dest']:
                        got = pl
            elif i.pf == 0xC3 and i.ps == q['dest'] and i.sa == T_ADDR:
                got = bytes(f.data)
        if got != want:
            viol.append({'clause': 'dm22-wire-bytes', 'rank': 1, 'feat': {'spn_high': q['spn'] > 0xFFFF},
                         'msg': 'DM22 request for SPN %d FMI %d went out as %s, J1939-73 layout is %s' % (q['spn'], q['fmi'], got.hex() if got else None, want.hex())})
    res = {'violations': viol[:5], 'stats': dict(stats, frames=len(bus.frames)), 'nontrivial': stats['dm1_deliveries'] > 0, 'digest': sim.digest(),
           'sim_s': (sim.now - t0) / 1e9,
           'summary': '%s %d DTCs (%s), history %s, %d cycles, %d deliveries' % (T.cfg['dll'], n, mode, [h.get('cycle_ms', h['op']) for h in scn['history'] if h['op'] != 'wait'],
                                                                                stats['dm1_cycles'], stats['dm1_deliveries'])}
    if keep_log:
        res['log'] = sim.logbuf
    w.close()
    return res


def features(scn, v):
    return {'dll': scn['stacks'][0]['dll']}


def shrink(scn):
    yield from gen.drop_each(scn, 'dm22', 0)
    if len(scn['history']) > 2:
        c = copy.deepcopy(scn)
        c['history'] = c['history'][:len(c['history']) // 2]
        yield c
        c = copy.deepcopy(scn)
        c['history'] = c['history'][:-1]
        yield c
    for n in (1, 2, 3, 15):
        if n < scn['ndtc']:
            c = copy.deepcopy(scn)
            c['ndtc'] = n
            yield c
    yield from gen.simplify_env(scn)
    if len(scn['stacks']) > 2:
        c = copy.deepcopy(scn)
        del c['stacks'][2]
        yield c
