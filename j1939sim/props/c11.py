"""C11 - FD multi-PG packing preserves every group and honours frame and time limits."""
import copy

from .. import gen, refcodec as rc
from ..world import World, payload
from ..preempt import call_preempted
from . import common

ID = 'C11'
LEVEL = 'exploration'
BUDGET = {'quick': (50000, 80.0), 'thorough': (600000, 1500.0)}
RULE = ('two real J1939-22 stacks; a generated sequence of 1..12 send_pgn calls with 1..60 bytes, PDU1/PDU2 PGNs, 1-3 destinations incl. global, '
        'time_limit in {0, 1..200 ms}, FEFF end to end and FBFF decoded on the bus by the reference codec only, issued from the application context or '
        'from a timer callback at instants drawn over the job thread\'s sleep (in some runs: from inside the stack\'s own transmission, while the job thread is parked at its k-th source line, '
        'or with the application call itself parked at its k-th library source line; the application may refill the list it passed); every frame on the bus is decoded independently and matched against the '
        'submissions. non-trivial = at least one group was sent with a time limit (buffered); distinct = distinct scenario JSON')
FAULT_COUNTERS = {'application thread parked at a source line inside send_pgn (pre-emption)': 'preempted_calls', 'send_pgn while the job thread is parked at a source line of its pass (pre-emption)': 'preempted_submissions', 'send_pgn from inside the stack\'s own transmission (submission while the job thread flushes)': 'nested_submissions', 'send_pgn issued from a timer callback (job-thread context)': 'timer_ctx_groups', 'buffer-full flushes': 'full_buffer_flushes'}
REQUIRED_PROBES = ['groups', 'buffered_groups', 'combined_frames', 'fbff_groups', 'timer_ctx_groups', 'full_buffer_flushes', 'preempted_submissions', 'preempted_calls']
FEFF, FBFF = 3, 2


def generate(rng, tier, i):
    ncas = rng.choice([1, 2])
    saddrs = gen.draw_addresses(rng, ncas)
    raddrs = gen.draw_addresses(rng, rng.choice([1, 2]), exclude=saddrs)
    stacks = [{'name': 'S', 'dll': 'j1939-22', 'max_cmdt': 1, 'cas': [{'addr': a} for a in saddrs]},
              {'name': 'R', 'dll': 'j1939-22', 'max_cmdt': 1, 'cas': [{'addr': a} for a in raddrs], 'ecu_listeners': rng.choice([[], [None]])}]
    scn = {'kernel': gen.draw_kernel(rng), 'latency': gen.draw_latency(rng, False, ['S', 'R']), 'stacks': stacks}
    dests = raddrs + [255]
    calls = []
    n = rng.choice([1, 2, 3, 4, 6, 8, 12])
    burst = rng.random() < 0.5
    t = 0
    tl_choices = [0, 1, 5, 20, 50, 100, 200]
    for _ in range(n):
        t += rng.choice([0, 0, 100, 1000]) if burst else rng.choice([0, 1000, 30_000, 150_000, 800_000, 3_000_000])
        pdu2 = rng.random() < 0.35
        ln = rng.choice([1, 8, 20, 26, 27, 28, 30, 52, 55, 56, 57, 60, rng.randint(1, 60)])
        c = {'at_us': t, 'ca': rng.randrange(ncas), 'prio': rng.randrange(8), 'dp': rng.choice([0, 0, 1]), 'len': ln,
             'fill': rng.randrange(1 << 16), 'tl_ms': rng.choice(tl_choices), 'ff': FEFF, 'ctx': rng.choice(['app', 'app', 'timer'])}
        if pdu2:
            c['pf'], c['ps'] = rng.choice([240, 254, 255]), rng.choice([0, 0xCA, 255, rng.randrange(256)])
        else:
            c['pf'], c['ps'] = rng.choice([0, 0xD0, 0xEF, 0xC3, rng.randrange(0, 240)]), rng.choice(dests)
            if c['pf'] in (0xEA, 0xEE, 0x4D, 0x4E, 0x25, 0xEB, 0xEC):
                c['pf'] = 0xD3
        if rng.random() < 0.2 and (pdu2 or c['ps'] == 255):
            c['ff'] = FBFF
        calls.append(c)
    scn['calls'] = calls
    # some calls are made from inside the stack's own k-th transmission: an application thread submitting at the very
    # instant the job thread is flushing a buffer (or a backend that calls back)
    if len(calls) > 1 and rng.random() < 0.3:
        for c in rng.sample(calls[1:], min(len(calls) - 1, rng.randint(1, 2))):
            c['on_tx'] = rng.choice([0, 0, 1, 1, 2, 3])
            c['ctx'] = 'app'
    # pre-emption: the job thread is parked at its k-th source line (counted while a buffered group is waiting) and an
    # application thread submits a group for the same buffer exactly then
    scn['reuse_lists'] = rng.random() < 0.5
    # an unrelated periodic timer of the application on the sending ECU (its expiries interleave with the buffers' deadlines)
    scn['periodic_timer_ms'] = rng.choice([None, None, None, 30, 100])
    if rng.random() < 0.2:
        cand = [c for c in calls if c['ctx'] == 'app' and c.get('on_tx') is None]
        for c in rng.sample(cand, min(len(cand), rng.randint(1, 2))):
            c['pre'] = {'k': rng.randint(1, 70), 'hold_us': rng.choice([20, 300, 3000, 20000])}
    buffered = [c for c in calls if c['tl_ms'] > 0 and c.get('on_tx') is None]
    if buffered and rng.random() < 0.2:
        src = rng.choice(buffered)
        c = dict(copy.deepcopy(src), fill=rng.randrange(1 << 16), len=rng.choice([1, 8, src['len']]), tl_ms=rng.choice([5, 50, 200]), ctx='app',
                 on_line=rng.randint(1, 45), hold_us=rng.choice([1, 50, 500]))
        c.pop('on_tx', None)
        calls.append(c)
    return scn


class LineTrigger:
    """Trace function for the job thread of stack S: at the k-th line event inside j1939_22.py that is executed while `cond()`
    holds, run `fire()` (scheduler context, at once) and park the thread for hold_ns."""

    def __init__(self, sim):
        self.sim = sim
        self.targets = {}       # k -> (hold_ns, fire)
        self.cond = lambda: False
        self.n = 0
        self.fired = 0
        self.windows = []       # (from, to) the job thread was held

    def global_trace(self, frame, event, arg):
        if event == 'call' and self.targets and frame.f_code.co_filename.endswith('j1939_22.py'):
            return self.local_trace
        return None

    def local_trace(self, frame, event, arg):
        if event == 'line' and self.targets and self.cond():
            self.n += 1
            t = self.targets.pop(self.n, None)
            if t is not None:
                self.fired += 1
                self.windows.append((self.sim.now, self.sim.now + t[0]))
                self.sim.log('preempt', frame.f_lineno, self.n, t[0])
                self.sim.after(0, t[1], 'op')
                self.sim.preempt(t[0])
        return self.local_trace


def execute(scn, keep_log=False, hook=None):
    trig = {}

    def factory(sim):
        if any(c.get('on_line') for c in scn['calls']):
            trig['S'] = LineTrigger(sim)
        return trig
    w = World(scn, keep_log=keep_log, tracer_factory=factory)
    import sys
    FrameFormat = sys.modules['j1939.message_id'].FrameFormat      # (constants only; loaded from VERIF_REPO by World)
    assert FrameFormat.FEFF == FEFF and FrameFormat.FBFF == FBFF
    sim, bus = w.sim, w.bus
    S = w.stacks['S']
    viol = []
    stats = {'groups': 0, 'buffered_groups': 0, 'combined_frames': 0, 'fbff_groups': 0, 'timer_ctx_groups': 0, 'full_buffer_flushes': 0,
             'mpg_frames': 0, 'nested_submissions': 0, 'preempted_submissions': 0, 'preempted_calls': 0}
    t0 = sim.now
    sim.run_for(0.02)
    pending = []        # submissions not yet seen on the bus
    done = []
    exp = common.Counter()
    lmax = scn['kernel']['lmax_ns']
    eps = 40 * scn['kernel']['read_cost_ns'] + 20_000

    def observe(fr):
        if fr.src != 'S':
            return
        if fr.ext:
            i = rc.Id(fr.can_id)
            if i.pf != rc.PF_MULTI_PG:
                viol.append({'clause': 'unexpected-frame', 'rank': 1, 'msg': 'stack emitted %08X for a <= 60 byte group' % fr.can_id})
                return
            sa, da, ff = i.sa, i.ps, FEFF
        else:
            sa, da, ff = fr.can_id & 0xFF, 255, FBFF
            if fr.can_id > 0x7FF:
                viol.append({'clause': 'frame-format', 'rank': 1, 'msg': 'base-format identifier %X' % fr.can_id})
        stats['mpg_frames'] += 1
        if not fr.fd:
            viol.append({'clause': 'frame-format', 'rank': 1, 'msg': 'multi-PG frame not sent as CAN FD'})
        if len(fr.data) > 64 or len(fr.data) not in rc.FD_LENGTHS:
            viol.append({'clause': 'frame-length', 'rank': 1, 'msg': 'multi-PG frame with %d bytes' % len(fr.data)})
        try:
            groups, rest = rc.mpg_decode(fr.data)
        except ValueError as e:
            viol.append({'clause': 'frame-undecodable', 'rank': 1, 'msg': 'reference decoder: %s (%s)' % (e, fr.data.hex())})
            return
        if rest and (any(b != 0 for b in rest[:3]) or any(b != 0xAA for b in rest[3:])):
            viol.append({'clause': 'padding', 'rank': 2, 'msg': 'padding bytes %s (expected zero service header then 0xAA)' % rest.hex()})
        if len(groups) > 1:
            stats['combined_frames'] += 1
        if not groups:
            viol.append({'clause': 'empty-frame', 'rank': 2, 'msg': 'multi-PG frame without any group'})
        matched = []
        for (tos, tf, cpgn, pl) in groups:
            if tos != 2 or tf != 0:
                viol.append({'clause': 'group-header', 'rank': 1, 'msg': 'C-PG header TOS %d TF %d' % (tos, tf)})
            hit = None
            # two submissions may carry identical content (1-byte groups): attribute the group to a submission
            # made for this frame's source/destination/format if there is one
            for want_key in (True, False):
                for s in pending:
                    if s['cpgn'] == cpgn and s['data'] == pl and (not want_key or (s['sa'], s['da'], s['ff']) == (sa, da, ff)):
                        hit = s
                        break
                if hit is not None:
                    break
            if hit is None:
                viol.append({'clause': 'phantom-group', 'rank': 1, 'msg': 'frame carries group %05X (%d bytes) that was not submitted (or twice)' % (cpgn, len(pl))})
                continue
            pending.remove(hit)
            hit['t_bus'] = fr.t
            done.append(hit)
            matched.append(hit)
            if (hit['sa'], hit['da'], hit['ff']) != (sa, da, ff):
                viol.append({'clause': 'mixed-frame', 'rank': 1,
                             'msg': 'group submitted for sa %d da %d format %d travelled in a frame sa %d da %d format %d' % (hit['sa'], hit['da'], hit['ff'], sa, da, ff)})
        # probe: a buffer flushed well before the earliest time limit of its groups (a later group did not fit any more)
        if matched and all(h['tl'] > 0 for h in matched) and min(h['t_sub'] + h['tl'] for h in matched) - fr.t > 1_000_000:
            stats['full_buffer_flushes'] += 1
    bus.observers.append(observe)

    in_call = [0]
    app_holds = []

    def submit(c):
        ca = S.cas[c['ca']]
        data = payload(c['fill'], c['len'])
        sa = S.cfg['cas'][c['ca']]['addr']
        da = c['ps'] if c['pf'] < 240 else 255
        cpgn = rc.sae_pgn(c['dp'], c['pf'], c['ps'])
        rec = {'t_sub': sim.now, 'tl': c['tl_ms'] * 1_000_000, 'sa': sa, 'da': da, 'ff': c['ff'], 'cpgn': cpgn, 'data': bytes(data), 'ctx': c['ctx']}
        pending.append(rec)
        stats['groups'] += 1
        stats['buffered_groups'] += int(c['tl_ms'] > 0)
        stats['fbff_groups'] += int(c['ff'] == FBFF)
        stats['timer_ctx_groups'] += int(c['ctx'] == 'timer')
        buf = list(data)
        # an application-context call may be parked at its k-th library source line inside send_pgn (job thread and reception run on)
        pre = c.get('pre') if sim.current is None and not in_call[0] else None
        in_call[0] += 1
        try:
            ok, tr = call_preempted(sim, (lambda: ca.send_pgn(c['dp'], c['pf'], c['ps'], c['prio'], buf, time_limit=c['tl_ms'] / 1000.0, frame_format=c['ff'])), pre)
        finally:
            in_call[0] -= 1
        if tr is not None and tr.fired:
            stats['preempted_calls'] += 1
            # scheduling latency of this run: the time limit of this group runs from somewhere inside the call, and a thread parked
            # while it holds the buffer lock keeps the job thread from sending anything else
            app_holds.extend(tr.windows)
        if scn.get('reuse_lists'):
            # the application refills its scratch list for the next signal as soon as send_pgn has returned
            buf[:] = [0xEE] * (len(buf) + 1)
        if ok is not True:
            viol.append({'clause': 'send-refused', 'rank': 2, 'msg': 'send_pgn returned %r' % (ok,)})
            pending.remove(rec)
            return
        if c['ff'] == FEFF:
            for l in common.listeners_bound(w.stacks['R'].cfg, da) if (da == 255 or common.stack_owns(w.stacks['R'].cfg, da)) else []:
                exp[('R', l, cpgn, sa, bytes(data))] += 1

    if scn.get('periodic_timer_ms'):
        S.ecu.add_timer(scn['periodic_timer_ms'] / 1000.0, lambda cookie: True)
    base = sim.now
    txn = [0]
    nest = [0]
    pend = [c for c in scn['calls'] if c.get('on_tx') is not None]

    def on_tx(fr):
        if fr.src != 'S':
            return
        k = txn[0]
        txn[0] += 1
        if nest[0] or in_call[0]:
            return
        for c in list(pend):
            if c['on_tx'] == k:
                pend.remove(c)
                nest[0] += 1
                try:
                    stats['nested_submissions'] += 1
                    submit(c)
                finally:
                    nest[0] -= 1
    bus.post_hooks.append(on_tx)
    lt = trig.get('S')
    late = []
    if lt is not None:
        lt.cond = lambda: any(x['tl'] > 0 for x in pending)
        for c in scn['calls']:
            if c.get('on_line'):
                def fire(c=c):
                    if c not in late:
                        late.append(c)
                        stats['preempted_submissions'] += 1
                        submit(c)
                lt.targets[c['on_line']] = (c['hold_us'] * 1000, fire)
    for c in scn['calls']:
        if c.get('on_tx') is not None or c.get('on_line'):
            continue
        if c['ctx'] == 'timer':
            def arm(c=c):
                S.ecu.add_timer(0.0005, lambda cookie, c=c: (submit(c), False)[1])
            sim.at(base + c['at_us'] * 1000, arm, 'op')
        else:
            sim.at(base + c['at_us'] * 1000, (lambda c=c: submit(c)), 'op')
    end = base + max([c['at_us'] for c in scn['calls']] + [0]) * 1000
    if lt is not None:
        # a pre-emption point that was never reached: the group is submitted after the last scheduled call instead
        def flush_unfired():
            lt.targets.clear()
            for c in scn['calls']:
                if c.get('on_line') and c not in late:
                    late.append(c)
                    submit(c)
        sim.at(end + 250_000_000, flush_unfired, 'op')
        end += 250_000_000
    sim.run_until(end + 6_500_000_000)
    viol += common.thread_violations(w)
    for s in pending:
        viol.append({'clause': 'group-never-sent', 'rank': 2, 'feat': {'ctx': s['ctx']},
                     'msg': 'group %05X (%d bytes, limit %d ms) was not on the bus 6 s after submission' % (s['cpgn'], len(s['data']), s['tl'] // 1_000_000)})
    worst = None
    for s in done:
        late = s['t_bus'] - s['t_sub'] - s['tl'] - sum(b - a for (a, b) in app_holds if a <= s['t_bus'] and b >= s['t_sub'])
        if lt is not None:
            # the job thread was held on purpose: that time is scheduling latency of this run
            late -= sum(b - a for (a, b) in lt.windows if a <= s['t_bus'] and b >= s['t_sub'])
        if late > lmax + eps and (worst is None or late > worst[0]):
            worst = (late, s)
    if worst:
        late, s = worst
        viol.append({'clause': 'time-limit-missed', 'rank': 4, 'feat': {'ctx': s['ctx'], 'immediate': s['tl'] == 0},
                     'msg': 'group %05X submitted with time limit %d ms was on the bus %.3f ms after submission (%.3f ms late, allowed %.3f ms)' % (
                         s['cpgn'], s['tl'] // 1_000_000, (s['t_bus'] - s['t_sub']) / 1e6, late / 1e6, (lmax + eps) / 1e6)})
    viol += common.compare_deliveries(w, exp, common.Counter())
    viol += common.idle_violations(w)
    res = {'violations': viol[:6], 'stats': dict(stats, frames=len(bus.frames)), 'nontrivial': stats['buffered_groups'] > 0,
           'digest': sim.digest(), 'sim_s': (sim.now - t0) / 1e9,
           'summary': '%d calls -> %d multi-PG frames (%d combined)' % (len(scn['calls']), stats['mpg_frames'], stats['combined_frames'])}
    if keep_log:
        res['log'] = sim.logbuf
    w.close()
    return res


def features(scn, v):
    return {}


def shrink(scn):
    yield from gen.drop_each(scn, 'calls', 1)
    yield from gen.simplify_env(scn)
    for i, c in enumerate(scn['calls']):
        if c['at_us']:
            x = copy.deepcopy(scn)
            x['calls'][i]['at_us'] = 0
            yield x
        if c['ctx'] != 'app':
            x = copy.deepcopy(scn)
            x['calls'][i]['ctx'] = 'app'
            yield x
        if c.get('on_tx') is not None:
            x = copy.deepcopy(scn)
            del x['calls'][i]['on_tx']
            yield x
        if c.get('on_line'):
            for k in (c['on_line'] - 1, c['on_line'] // 2):
                if k >= 1 and k != c['on_line']:
                    x = copy.deepcopy(scn)
                    x['calls'][i]['on_line'] = k
                    yield x
        if c['len'] > 1:
            for n in (1, 8):
                if n < c['len']:
                    x = copy.deepcopy(scn)
                    x['calls'][i]['len'] = n
                    yield x
        if c['ff'] != FEFF:
            x = copy.deepcopy(scn)
            x['calls'][i]['ff'] = FEFF
            yield x
        if c['tl_ms'] not in (0, 50):
            x = copy.deepcopy(scn)
            x['calls'][i]['tl_ms'] = 50
            yield x
