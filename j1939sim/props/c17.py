"""C17 - DM14 memory access returns and stores exactly the addressed data."""
import copy

from .. import gen, refcodec as rc
from ..world import payload
from . import common
from .dm14net import Dm14Net, le_values, topo, C_ADDR, S_ADDR

ID = 'C17'
LEVEL = 'exploration'
BUDGET = {'quick': (12000, 80.0), 'thorough': (250000, 1500.0)}
CHUNK = 20
RULE = ('client and server stacks (J1939-21) with MemoryAccess on bypassed CAs; blocking read/write in a simulated client application thread, a simulated server '
        'application thread answering notifications with respond(); count x size = 1..255 bytes (classes 1, 7, 8, 9, 255, random), object sizes 1/2/4/8, signed/unsigned, '
        'raw/converted, direct/spatial, seed/key on or off with arbitrary seeds, 1-4 transactions on the same objects with pauses from none at all to 0.4 s, the same object read repeatedly from one list the serving application keeps, served bytes at the limits of the signed range, latency (0, 5 ms]; DM14 memory model. '
        'non-trivial = at least one transaction completed with data; distinct = distinct scenario JSON')
FAULT_COUNTERS = {'seed/key exchanges (runs)': 'with_key', 'back-to-back transactions (runs)': 'back_to_back'}
REQUIRED_PROBES = ['reads', 'writes', 'multi_packet', 'single_frame', 'with_key', 'values_converted', 'back_to_back']


def gen_op(rng):
    size = rng.choice([1, 1, 1, 2, 4, 8])
    total = rng.choice([1, 2, 7, 7, 8, 8, 9, 16, 64, 255, rng.randint(1, 255)])
    count = max(1, min(255, total // size))
    addr = rng.choice([0, 1, 0x92000003, 0xFFFFFFFF, rng.getrandbits(32)])
    if rng.random() < 0.5:
        op = {'op': 'read', 'address': addr, 'count': count, 'size': size, 'signed': rng.random() < 0.4, 'raw': rng.random() < 0.4,
              'direct': rng.choice([0, 1]), 'fill': rng.randrange(1 << 16)}
        if rng.random() < 0.25:
            op['pattern'] = 'limits'        # the served bytes encode the limits of the signed/unsigned range at this object size
        return op
    vals = []
    for _ in range(count):
        vals.append(rng.choice([0, 1, (1 << (8 * size)) - 1, 1 << (8 * size - 1), rng.getrandbits(8 * size)]))
    return {'op': 'write', 'address': addr, 'values': vals, 'size': size, 'direct': rng.choice([0, 1])}


def generate(rng, tier, i):
    key = rng.choice([None, None, 'xor', 'add'])
    scn = {'kernel': gen.draw_kernel(rng), 'latency': gen.draw_latency(rng, False, ['C', 'S']), 'server_key': key, 'client_key': key,
           'seeds': [rng.choice([0x0000, 0x0001, 0xA55A, 0xFFFE, 0xFFFF, 0x8000, rng.randrange(0, 0x10000)]) for _ in range(4)],
           'c_max_cmdt': rng.choice([1, 1, 3, 255]), 's_max_cmdt': rng.choice([1, 1, 3, 255]),
           'c_addr': rng.choice([0xF9, 0xF9, 0x00, 253, rng.choice([a for a in range(254) if a != S_ADDR])]),
           'ops': [gen_op(rng) for _ in range(rng.choice([1, 1, 2, 3, 4]))], 'inline_respond': rng.random() < 0.25}
    ops = scn['ops']
    for k in range(1, len(ops)):
        # the same object read again (the serving application keeps one list per object when serve_by_ref is set)
        if rng.random() < 0.3:
            prev = [o for o in ops[:k] if o['op'] == 'read']
            if prev:
                ops[k] = dict(copy.deepcopy(rng.choice(prev)), raw=rng.random() < 0.5)
    scn['serve_by_ref'] = rng.random() < 0.5
    for o in ops:
        # pause of the client application between transactions: none at all (next call straight after the previous returned) .. long
        o['gap_s'] = rng.choice([0, 0, 0.0002, 0.4])
    return scn


LIMITS = [lambda b: (1 << (b - 1)) - 1, lambda b: -1, lambda b: 0, lambda b: 1, lambda b: -(1 << (b - 1)) + 1, lambda b: -(1 << (b - 1))]


def served(op):
    if op.get('pattern') == 'limits':
        bits = 8 * op['size']
        out = b''
        for k in range(op['count']):
            out += (LIMITS[(k + op['fill']) % len(LIMITS)](bits) & ((1 << bits) - 1)).to_bytes(op['size'], 'little')
        return out
    return bytes(payload(op['fill'], op['count'] * op['size']))


def execute(scn, keep_log=False, hook=None):
    scn = copy.deepcopy(scn)
    net = Dm14Net(scn, keep_log=keep_log)
    sim, bus = net.sim, net.bus
    states = set()

    def sample_states():
        st_ = net.states()
        st_['server_sa'] = st_['server_sa'] is not None
        states.add(repr(sorted(st_.items())))
        sim.after(2_000_000, sample_states, 'poll')
    sim.after(2_000_000, sample_states, 'poll')
    viol = []
    stats = {k: 0 for k in REQUIRED_PROBES}
    t0 = sim.now
    ops = scn['ops']
    for op in ops:
        if op['op'] == 'read':
            net.plans.append({'action': 'respond', 'proceed': True, 'data': list(served(op)), 'obj': (op['address'], op['count'], op['size'], op['fill'], op.get('pattern'))})
        else:
            net.plans.append({'action': 'respond', 'proceed': True, 'data': []})
    stats['back_to_back'] = int(len(ops) > 1)
    stats['with_key'] = int(bool(scn.get('server_key')))
    sim.run_for(0.02)
    if hook:
        hook(net)
    net.run_client(ops, gap_s=0.4)
    sim.run_for(len(ops) * 1.6 + 0.5)
    viol += common.thread_violations(net.w)
    for th in (net.client_thread, net.server_thread):
        if th.exc is not None:
            viol.append({'clause': 'app-thread-exception', 'rank': 1, 'msg': '%s: %r' % (th.name, th.exc)})
    s_rx = net.w.stacks['S'].port.rx_log

    def races(k):
        """Asynchronous clean-up windows of the previous transaction that were still open when operation k ran (see known findings)."""
        if k == 0 or k >= len(net.client_results):
            return 'none'
        rec = net.client_results[k]
        out = []
        req = [n for n, (t, fr) in enumerate(s_rx) if rec['t0'] <= t <= rec['t1'] and fr.src == 'C' and rc.Id(fr.can_id).pf == 0xD9]
        back = [net.respond_rx_marks[n] for n, (t, i, r) in enumerate(net.respond_results) if i == k - 1]
        if req and (not back or back[0] > req[0]):
            out.append('request-while-app-in-respond')      # the facade is not subscribed until respond() has returned
        if any(rec['t0'] <= t <= rec['t1'] and pf == 0xD7 and n > 8 and r is False for (t, who, pf, n, r) in net.sends):
            out.append('dm16-refused-pair-busy')             # transport session of the previous DM16 not yet removed by the job thread
        return '+'.join(out) or 'none'

    for k, op in enumerate(ops):
        nbytes = op['count'] * op['size'] if op['op'] == 'read' else len(op['values']) * op['size']
        shape = {'race': races(k), 'op': op['op'], 'bytes': 'le7' if nbytes <= 7 else ('8' if nbytes == 8 else 'gt8'), 'after': ops[k - 1]['op'] + ('-multi' if (ops[k - 1].get('count', len(ops[k - 1].get('values', []))) * ops[k - 1]['size']) > 7 else '-single') if k else 'start'}
        if k >= len(net.client_results):
            viol.append({'clause': 'client-call-never-returned', 'rank': 2, 'feat': shape, 'msg': 'operation %d (%s, %d bytes) did not return' % (k, op['op'], nbytes)})
            break
        rec = net.client_results[k]
        stats['reads' if op['op'] == 'read' else 'writes'] += 1
        stats['multi_packet' if nbytes > 7 else 'single_frame'] += 1
        if rec['exc'] is not None:
            viol.append({'clause': 'client-exception', 'rank': 2, 'feat': shape, 'msg': 'operation %d (%s, %d bytes): %r' % (k, op['op'], nbytes, rec['exc'])})
            break
        if op['op'] == 'read':
            data = served(op)
            res = rec['result']
            if op.get('raw'):
                got = bytes(bytearray(res)) if res is not None else None
                if got != data:
                    viol.append({'clause': 'read-wrong-bytes', 'rank': 1, 'feat': shape,
                                 'msg': 'read of %d bytes returned %s, served %s' % (nbytes, None if got is None else got[:16].hex() + '(%d)' % len(got), data[:16].hex())})
                    break
            else:
                stats['values_converted'] += 1
                want = le_values(data, op['size'], op['signed'])
                if list(res or []) != want:
                    viol.append({'clause': 'read-wrong-values', 'rank': 1, 'feat': shape,
                                 'msg': 'read of %d x %d bytes (signed=%s) returned %s, the served bytes encode %s' % (op['count'], op['size'], op['signed'], list(res or [])[:6], want[:6])})
                    break
        else:
            want = b''.join(int(v).to_bytes(op['size'], 'little') for v in op['values'])
            rr = [r for (_t, i, r) in net.respond_results if i == k]
            if not rr or rr[0] != want:
                viol.append({'clause': 'write-wrong-bytes', 'rank': 1, 'feat': shape,
                             'msg': 'write of %d bytes: serving application got %r, written %s' % (nbytes, rr[0] if rr else None, want[:16].hex())})
                break
        if k >= len(net.proceed_calls):
            viol.append({'clause': 'proceed-not-called', 'rank': 2, 'feat': shape, 'msg': 'operation %d: proceed callback was not invoked' % k})
            break
        pc = net.proceed_calls[k]
        wantp = {'command': 1 if op['op'] == 'read' else 2, 'address': op['address'], 'pointer_type': op['direct'],
                 'object_count': op['count'] if op['op'] == 'read' else len(op['values']), 'sa': net.c_addr}
        diff = {f: (pc[f], wantp[f]) for f in wantp if pc[f] != wantp[f]}
        if diff:
            viol.append({'clause': 'proceed-arguments', 'rank': 2, 'feat': shape, 'msg': 'operation %d: proceed callback saw (got, asked) %s' % (k, diff)})
            break
    if not viol and len(net.proceed_calls) != len(ops):
        pc = net.proceed_calls[len(ops)]
        viol.append({'clause': 'spurious-request', 'rank': 2, 'msg': 'proceed callback invoked %d times for %d operations; extra call: command %s from %s' % (
            len(net.proceed_calls), len(ops), pc['command'], pc['sa'])})
    if not viol:
        p = net.idle_problems()
        if p:
            viol.append({'clause': 'not-idle', 'rank': 3, 'msg': 'after the transactions: ' + ', '.join(p)})
        viol += common.idle_violations(net.w)
    done = sum(1 for r in net.client_results if r['exc'] is None)
    res = {'violations': viol[:4], 'stats': dict(stats, frames=len(bus.frames)), 'nontrivial': done > 0, 'digest': sim.digest(), 'sim_s': (sim.now - t0) / 1e9, 'states': states,
           'summary': 'key=%s ops=%s' % (scn.get('server_key'), [(o['op'], o.get('count', len(o.get('values', []))), o['size']) for o in ops])}
    if keep_log:
        res['log'] = sim.logbuf
    net.close()
    return res


def features(scn, v):
    return {}


def shrink(scn):
    yield from gen.drop_each(scn, 'ops', 1)
    yield from gen.simplify_env(scn)
    if scn.get('server_key'):
        c = copy.deepcopy(scn)
        c['server_key'] = c['client_key'] = None
        yield c
    for flag in ('serve_by_ref', 'inline_respond'):
        if scn.get(flag):
            c = copy.deepcopy(scn)
            c[flag] = False
            yield c
    for k in ('c_max_cmdt', 's_max_cmdt'):
        if scn.get(k, 1) != 255:
            c = copy.deepcopy(scn)
            c[k] = 255
            yield c
    for i, op in enumerate(scn['ops']):
        if op['op'] == 'read':
            for cnt in (1, 7, 8, 9):
                if cnt < op['count']:
                    c = copy.deepcopy(scn)
                    c['ops'][i]['count'] = cnt
                    yield c
            if not op.get('raw'):
                c = copy.deepcopy(scn)
                c['ops'][i]['raw'] = True
                yield c
        else:
            for cnt in (1, 7, 8, 9):
                if cnt < len(op['values']):
                    c = copy.deepcopy(scn)
                    c['ops'][i]['values'] = op['values'][:cnt]
                    yield c
        if op.get('gap_s', 0.4) != 0.4:
            c = copy.deepcopy(scn)
            c['ops'][i]['gap_s'] = 0.4
            yield c
        if op.get('pattern'):
            c = copy.deepcopy(scn)
            del c['ops'][i]['pattern']
            yield c
        if op['size'] != 1:
            c = copy.deepcopy(scn)
            c['ops'][i]['size'] = 1
            if op['op'] == 'write':
                c['ops'][i]['values'] = [v & 0xFF for v in op['values']]
            yield c
