"""C12 - timers fire when due and callback registrations mean what they say."""
import copy

from .. import gen, refcodec as rc
from ..preempt import call_preempted
from ..world import World
from . import common

ID = 'C12'
LEVEL = 'exploration'
BUDGET = {'quick': (4500, 80.0), 'thorough': (300000, 1500.0)}
RULE = ('one real ECU; a generated history of up to 12 add_timer / remove_timer / subscribe / unsubscribe operations (periods on a grid 1 ms..3 s, one-shot and '
        'periodic, duplicate registrations of one callback, callbacks removing themselves) issued from the application context or from inside a timer callback, '
        'with idle gaps from 0 to several periods and injected frames for the subscribers (in some runs an application call is parked at its k-th library source line for 20 us .. 60 ms); each registration carries a unique cookie so every call is attributed; '
        'a timer model gives the allowed firing windows. non-trivial = at least one timer fired; distinct = distinct scenario JSON')
FAULT_COUNTERS = {'application thread parked at a source line inside add_timer / remove_timer / subscribe / unsubscribe (pre-emption)': 'preempted_calls', 'operations issued from inside a timer callback': 'ops_in_timer_ctx', 'callbacks removing themselves': 'self_removals', 'expiries in the same pass': 'same_pass_expiries'}
REQUIRED_PROBES = ['busy_callbacks', 'timer_calls', 'oneshots', 'periodics', 'duplicates', 'ops_in_timer_ctx', 'self_removals', 'removes', 'same_pass_expiries', 'subscriber_calls', 'preempted_calls', 'concurrent_add_remove']
PERIODS_MS = [1, 2, 5, 10, 10, 20, 50, 100, 250, 500, 1000, 3000]
GAPS_MS = [0, 0, 0, 1, 5, 10, 10, 20, 100, 600, 2500, 0.65, 1.7, 9.35, 19.5]      # ("arbitrary idle gaps": not only whole milliseconds)


def generate(rng, tier, i):
    scn = {'kernel': gen.draw_kernel(rng), 'latency': {'kind': 'const', 'ns': 1000},
           'stacks': [{'name': 'S', 'dll': rng.choice(['j1939-21', 'j1939-22']), 'max_cmdt': 1, 'cas': [{'addr': 0x20, 'listen': False}]}]}
    ops = []
    n = rng.choice([1, 2, 3, 4, 6, 8, 12])
    ncb = rng.choice([1, 2, 3, 4])
    small = False
    for _ in range(n):
        r = rng.random()
        ctx = rng.choice(['app', 'app', 'timer'])
        gap = rng.choice(GAPS_MS)
        if r < 0.5:
            p = rng.choice(PERIODS_MS)
            small = small or p < 5
            o = {'op': 'add', 'cb': rng.randrange(ncb), 'period_ms': p, 'periodic': rng.random() < 0.5, 'ctx': ctx, 'gap_ms': gap}
            if rng.random() < 0.15:
                o['self_remove_after'] = rng.randint(1, 3)
                o['self_remove_returns'] = rng.choice([True, False])
            elif rng.random() < 0.15:
                # a callback that takes real time (e.g. a blocking bus write): it legitimately delays timers that fall due
                # while it runs, but nothing that falls due after it has returned
                b = rng.choice([1, 3, 20, 150])
                o['busy_ms'] = min(b, max(1, p // 2)) if o['periodic'] else b
            ops.append(o)
        elif r < 0.7:
            ops.append({'op': 'remove', 'cb': rng.randrange(ncb), 'ctx': ctx, 'gap_ms': gap})
        elif r < 0.82:
            ops.append({'op': 'sub', 'cb': rng.randrange(ncb), 'filter': rng.choice([None, None, 0x20, 'pred']), 'ctx': ctx, 'gap_ms': gap})
        elif r < 0.9:
            ops.append({'op': 'unsub', 'cb': rng.randrange(ncb), 'ctx': ctx, 'gap_ms': gap})
        else:
            ops.append({'op': 'frame', 'da': rng.choice([255, 0x20, 0x21]), 'gap_ms': gap})
    if rng.random() < 0.15:
        # one callback registered twice in a row, removed, then traffic / time passes: it must stay silent
        cbx = rng.randrange(ncb)
        if rng.random() < 0.5:
            ops += [{'op': 'sub', 'cb': cbx, 'filter': None, 'ctx': 'app', 'gap_ms': 0}, {'op': 'sub', 'cb': cbx, 'filter': rng.choice([None, 0x20]), 'ctx': 'app', 'gap_ms': 0},
                    {'op': 'unsub', 'cb': cbx, 'ctx': 'app', 'gap_ms': 1}, {'op': 'frame', 'da': 255, 'gap_ms': 1}]
        else:
            per = rng.choice([5, 10, 50])
            ops += [{'op': 'add', 'cb': cbx, 'period_ms': per, 'periodic': True, 'ctx': 'app', 'gap_ms': 0}, {'op': 'add', 'cb': cbx, 'period_ms': per, 'periodic': rng.random() < 0.5, 'ctx': 'app', 'gap_ms': 0},
                    {'op': 'remove', 'cb': cbx, 'ctx': 'app', 'gap_ms': rng.choice([0, 1, per])}]
    if ncb > 1 and rng.random() < 0.12:
        # two threads change registrations at the same time: a timer callback removes one entry while the application thread, parked at a
        # source line inside its own call, removes another one (subscribers or timers); traffic / time follows
        cx, cy = rng.sample(range(ncb), 2)
        pre = {'k': rng.randint(1, 6), 'hold_us': rng.choice([3000, 5000, 60000])}
        if rng.random() < 0.5:
            ops += [{'op': 'sub', 'cb': cx, 'filter': None, 'ctx': 'app', 'gap_ms': 0}, {'op': 'sub', 'cb': cy, 'filter': None, 'ctx': 'app', 'gap_ms': 0},
                    {'op': 'unsub', 'cb': cx, 'ctx': 'timer', 'gap_ms': 0}, {'op': 'unsub', 'cb': cy, 'ctx': 'app', 'gap_ms': 0, 'pre': pre},
                    {'op': 'frame', 'da': 255, 'gap_ms': 10}]
        else:
            per = rng.choice([20, 50])
            ops += [{'op': 'add', 'cb': cx, 'period_ms': per, 'periodic': True, 'ctx': 'app', 'gap_ms': 0}, {'op': 'add', 'cb': cy, 'period_ms': per, 'periodic': True, 'ctx': 'app', 'gap_ms': 0},
                    {'op': 'remove', 'cb': cx, 'ctx': 'timer', 'gap_ms': 0}, {'op': 'remove', 'cb': cy, 'ctx': 'app', 'gap_ms': 0, 'pre': pre}]
    if ncb > 1 and rng.random() < 0.2:
        # a periodic callback that, in one invocation, removes another timer that falls due in the same pass and registers a new one
        per = rng.choice([5, 10, 50])
        ca, cb2 = rng.sample(range(ncb), 2)
        ops += [{'op': 'add', 'cb': ca, 'period_ms': per, 'periodic': True, 'ctx': 'app', 'gap_ms': rng.choice([0, 5]), 'act_at': rng.choice([1, 2]),
                 'act': [{'op': 'remove', 'cb': cb2, 'ctx': 'timer', 'gap_ms': 0},
                         {'op': 'add', 'cb': rng.randrange(ncb), 'period_ms': rng.choice([per, 20]), 'periodic': rng.random() < 0.5, 'ctx': 'timer', 'gap_ms': 0}][:rng.choice([1, 2, 2])]},
                {'op': 'add', 'cb': cb2, 'period_ms': per, 'periodic': rng.random() < 0.7, 'ctx': 'app', 'gap_ms': 0}]
    for o in ops:
        if o['op'] in ('sub', 'unsub') and rng.random() < 0.4:
            o['via'] = 'ca'
    # a timer callback that performs two operations in one invocation (e.g. replaces one timer by another: the list keeps its length)
    for o in ops:
        if o.get('ctx') == 'timer' and o['op'] in ('add', 'remove') and rng.random() < 0.3:
            if o['op'] == 'remove':
                o['then'] = [{'op': 'add', 'cb': rng.randrange(ncb), 'period_ms': rng.choice(PERIODS_MS), 'periodic': rng.random() < 0.5, 'ctx': 'timer', 'gap_ms': 0}]
            else:
                o['then'] = [{'op': 'remove', 'cb': rng.randrange(ncb), 'ctx': 'timer', 'gap_ms': 0}]
    # pre-emption of the application thread inside add_timer / remove_timer / subscribe / unsubscribe
    if rng.random() < 0.25:
        cand = [o for o in ops if o.get('ctx') == 'app' and o['op'] in ('add', 'remove', 'sub', 'unsub')]
        for o in rng.sample(cand, min(len(cand), rng.randint(1, 3))):
            o['pre'] = {'k': rng.randint(1, 14), 'hold_us': rng.choice([20, 500, 5000, 60000])}
    scn['ops'] = ops
    if small:
        scn['kernel']['lmax_ns'] = min(scn['kernel']['lmax_ns'], 50_000)
        scn['kernel']['read_cost_ns'] = min(scn['kernel']['read_cost_ns'], 1000)
    return scn


def execute(scn, keep_log=False, hook=None):
    w = World(scn, keep_log=keep_log)
    sim, bus = w.sim, w.bus
    st = w.stacks['S']
    ecu = st.ecu
    viol = []
    stats = {k: 0 for k in REQUIRED_PROBES}
    t0 = sim.now
    sim.run_for(0.02)
    lmax = scn['kernel']['lmax_ns']
    eps = 150 * scn['kernel']['read_cost_ns'] + 30_000
    regs = []           # registrations: dict(cb, t_reg, delta, periodic, calls[], removed_at)
    removed = {}        # cb -> list of times remove_timer(cb) returned
    unsub = {}          # cb -> list of times unsubscribe(cb) returned
    subs = {}           # cb -> list of times subscribe(cb) was performed
    sub_calls = []      # (t, cb)
    pass_marks = []
    busy = []           # (start, end) of callbacks that took real time
    busy_open = []      # starts of slow callbacks still running
    injected = []
    feeder = bus.port('X')

    timer_fns = {}
    sub_fns = {}
    tick = [0]

    def stamp():
        tick[0] += 1
        return (sim.now, tick[0])

    def timer_fn(cb):
        if cb not in timer_fns:
            def fn(cookie):
                r = regs[cookie]
                r['calls'].append(stamp())
                stats['timer_calls'] += 1
                pass_marks.append((sim.now, sim.events_run))
                if r.get('busy_ms'):
                    b0 = sim.now
                    busy_open.append(b0)
                    sim.sleep(r['busy_ms'] / 1000.0)
                    busy_open.remove(b0)
                    busy.append((b0, sim.now))
                    stats['busy_callbacks'] += 1
                if r.get('act') and len(r['calls']) == r.get('act_at', 1):
                    for extra in r['act']:          # a periodic callback that changes other registrations (several operations in one invocation)
                        perform(extra)
                sr = r.get('self_remove_after')
                if sr is not None and len(r['calls']) >= sr:
                    stats['self_removals'] += 1
                    s0 = stamp()
                    ecu.remove_timer(fn)
                    removed.setdefault(cb, []).append(stamp() + (s0[1], s0[0]))
                    return r['self_remove_returns']
                return r['periodic']
            timer_fns[cb] = fn
        return timer_fns[cb]

    def sub_fn(cb):
        if cb not in sub_fns:
            def fn(priority, pgn, sa, timestamp, data):
                sub_calls.append((stamp(), cb))
                stats['subscriber_calls'] += 1
            sub_fns[cb] = fn
        return sub_fns[cb]

    def lib(o, fn):
        """Make the library call fn(); an application-context operation with 'pre' runs in a simulated application thread that is
        parked at its k-th library source line for a while (the job thread and reception run on meanwhile)."""
        pre = o.get('pre') if sim.current is None else None
        _r, tr = call_preempted(sim, fn, pre)
        if tr is not None and tr.fired:
            stats['preempted_calls'] += 1

    def perform(o):
        if o['op'] == 'add':
            r = {'cb': o['cb'], 't_reg': sim.now, 'tick_reg': stamp()[1], 'delta': o['period_ms'] * 1_000_000, 'periodic': o['periodic'], 'calls': [],
                 'self_remove_after': o.get('self_remove_after'), 'self_remove_returns': o.get('self_remove_returns', False), 'busy_ms': o.get('busy_ms'),
                 'act': o.get('act'), 'act_at': o.get('act_at', 1)}
            if any(x['cb'] == o['cb'] for x in regs):
                stats['duplicates'] += 1
            regs.append(r)
            stats['periodics' if o['periodic'] else 'oneshots'] += 1
            lib(o, lambda: ecu.add_timer(o['period_ms'] / 1000.0, timer_fn(o['cb']), cookie=len(regs) - 1))
            r['t_ret'], r['tick_ret'] = stamp()
        elif o['op'] == 'remove':
            stats['removes'] += 1
            s0 = stamp()
            lib(o, lambda: ecu.remove_timer(timer_fn(o['cb'])))
            # (time returned, tick returned, tick called): a registration another thread makes while the call is in progress
            # (remove_timer wakes the job thread before it returns) is concurrent with the removal and not covered by it
            # entry: (time returned, tick returned, tick called, time called)
            removed.setdefault(o['cb'], []).append(stamp() + (s0[1], s0[0]))
        elif o['op'] == 'sub':
            flt = o['filter']
            if flt == 'pred':
                flt = (lambda d: d in (0x20, 0x21))
            if o.get('via') == 'ca':
                lib(o, lambda: st.cas[0].subscribe(sub_fn(o['cb'])))        # through the controller application (its own destination filter)
            else:
                lib(o, lambda: ecu.subscribe(sub_fn(o['cb']), flt))
            subs.setdefault(o['cb'], []).append(stamp())
        elif o['op'] == 'unsub':
            u0 = stamp()
            lib(o, lambda: (st.cas[0] if o.get('via') == 'ca' else ecu).unsubscribe(sub_fn(o['cb'])))
            unsub.setdefault(o['cb'], []).append(stamp() + (u0[1],))       # (time returned, tick returned, tick called)
        elif o['op'] == 'frame':
            injected.append(sim.now)
            if o['da'] == 255:
                bus.send('X', rc.make_id(6, 0, 0xFE, 0xCA, 0x77), True, bytes(8))
            else:
                bus.send('X', rc.make_id(6, 0, 0xD0, o['da'], 0x77), True, bytes(8))

    operator_regs = []

    def issue(o):
        if o.get('ctx') == 'timer':
            stats['ops_in_timer_ctx'] += 1

            def operator(cookie, o=o):
                perform(o)
                for extra in o.get('then', []):      # several operations in one callback invocation
                    perform(extra)
                return False
            ecu.add_timer(0.001, operator)
        else:
            perform(o)

    t = sim.now
    for o in scn['ops']:
        t += int(o.get('gap_ms', 0) * 1_000_000)
        sim.at(t, (lambda o=o: issue(o)), 'op')
    longest = max([o['period_ms'] for o in scn['ops'] if o['op'] == 'add'] + [x['period_ms'] for o in scn['ops'] for x in (o.get('then') or []) + (o.get('act') or []) if x['op'] == 'add'] + [10])
    t_end = t + min(3 * longest, 7000) * 1_000_000 + 300_000_000
    sim.run_until(t_end)
    t_judge = sim.now
    for b0 in busy_open:
        busy.append((b0, t_judge + 10 ** 12))      # still running at the end of the run
    viol += common.thread_violations(w)
    dead = bool(viol)
    slack = lmax + eps

    def allowed(deadline):
        """Latest legitimate call time for a timer due at `deadline`: scheduling latency, plus the rest of every slow callback
        that was running (or started within the latency) when it fell due."""
        t = deadline
        moved = True
        while moved:
            moved = False
            for (b0, b1) in busy:
                if b0 <= t + slack and b1 > t:
                    t = b1
                    moved = True
        return t + slack

    def busy_between(a, b):
        return any(b0 < b and b1 > a for (b0, b1) in busy)

    base_slack = slack
    n_removed = sum(len(v) for v in removed.values())
    if len(regs) > 400 or n_removed > 400:
        # far more registrations / removals than the history contains: the one-shot timers that carry the history's operations (or the
        # scripted callbacks) were called over and over; the detailed attribution below would take for ever and add nothing
        viol.append({'clause': 'oneshot-repeated', 'rank': 3, 'msg': 'the one-shot timers carrying the operations of the history were called again and again: %d registrations, %d removals performed for %d operations' % (len(regs), n_removed, len(scn['ops']))})
        regs = []
    for k, r in enumerate(regs):
        cb, t_reg, delta = r['cb'], r['t_reg'], r['delta']
        # a registration call that was held inside the library: the deadline was computed somewhere between call and return
        t_ret = r.get('t_ret', t_reg)
        slack = base_slack + (t_ret - t_reg)
        # a removal covers the registrations whose add_timer call had returned before the remove_timer call started (calls that overlap
        # are concurrent); the callback must not run after the call has returned, and may stop running as soon as it has started
        ends = [x for x in removed.get(cb, []) if x[2] > r.get('tick_ret', r['tick_reg'])]
        stop = min(ends, key=lambda x: x[1]) if ends else None
        t_stop = min(x[3] for x in ends) if ends else None      # (the removal that started first, not the one that returned first)
        t_stop_ret = stop[0] if stop else None
        # a removal whose call overlapped the registering call may or may not have taken this registration with it
        overl = [x for x in removed.get(cb, []) if not (x[2] > r.get('tick_ret', r['tick_reg']) or x[1] < r['tick_reg'])]
        if overl:
            stats['concurrent_add_remove'] += 1
            t_first = min(x[3] for x in overl)
            t_stop = t_first if t_stop is None else min(t_stop, t_first)
        call_stamps = r['calls']
        calls = [c[0] for c in call_stamps]
        for (c, ctick) in call_stamps:
            if c < t_reg + delta - 2000:
                viol.append({'clause': 'fired-early', 'rank': 4, 'msg': 'timer (period %d ms) registered at +%.3f ms fired after %.3f ms' % (
                    delta // 1_000_000, (t_reg - t0) / 1e6, (c - t_reg) / 1e6)})
                break
            if stop is not None and ctick > stop[1]:
                viol.append({'clause': 'called-after-remove', 'rank': 2, 'feat': {'what': 'timer'},
                             'msg': 'timer callback %d called %.3f ms after remove_timer returned (registered %d times)' % (
                                 cb, (c - t_stop_ret) / 1e6, sum(1 for x in regs if x['cb'] == cb))})
                break
        if dead:
            continue
        horizon = t_stop if t_stop is not None else t_judge
        if not r['periodic'] or (r.get('self_remove_after') is not None and not r['self_remove_returns']):
            if r['periodic'] is False and len(calls) > 1 and r.get('self_remove_after') is None:
                viol.append({'clause': 'oneshot-repeated', 'rank': 3, 'msg': 'one-shot timer fired %d times' % len(calls)})
            if not calls and horizon > allowed(t_ret + delta):
                viol.append({'clause': 'timer-missed', 'rank': 3, 'feat': {'kind': 'oneshot'},
                             'msg': 'one-shot timer (%d ms) registered at +%.3f ms had not fired %.3f ms later (allowed %d ms + %.3f ms)' % (
                                 delta // 1_000_000, (t_reg - t0) / 1e6, (horizon - t_reg) / 1e6, delta // 1_000_000, slack / 1e6)})
            elif calls and calls[0] > allowed(t_ret + delta):
                viol.append({'clause': 'timer-late', 'rank': 4, 'feat': {'kind': 'oneshot'},
                             'msg': 'one-shot timer (%d ms) fired %.3f ms after registration (allowed %d ms + %.3f ms)' % (
                                 delta // 1_000_000, (calls[0] - t_reg) / 1e6, delta // 1_000_000, slack / 1e6)})
            continue
        # periodic
        prev = t_reg
        bad = None
        for c in calls:
            off = (c - t_reg) % delta
            if off > slack and (c - t_reg) >= delta and c > allowed(c - off):
                bad = ('timer-late', 'periodic timer (%d ms) fired %.3f ms after its grid point (allowed %.3f ms)' % (delta // 1_000_000, off / 1e6, slack / 1e6))
                break
            if c - prev > delta + slack and not busy_between(prev, c):
                bad = ('timer-missed', 'periodic timer (%d ms): %.3f ms between consecutive calls' % (delta // 1_000_000, (c - prev) / 1e6))
                break
            prev = c
        if bad is None and horizon - prev > delta + slack and not busy_between(prev, horizon):
            if r.get('self_remove_after') is None or len(calls) < r['self_remove_after']:
                bad = ('timer-missed', 'periodic timer (%d ms) registered at +%.3f ms: last call %.3f ms before the end of its life' % (
                    delta // 1_000_000, (t_reg - t0) / 1e6, (horizon - prev) / 1e6))
        if bad:
            viol.append({'clause': bad[0], 'rank': 3 if bad[0] == 'timer-missed' else 4, 'feat': {'kind': 'periodic'}, 'msg': bad[1]})
    for ((tc, ctick), cb) in sub_calls:
        ends = [x for x in unsub.get(cb, []) if x[1] < ctick]
        if not ends:
            continue
        last_unsub = max(ends, key=lambda x: x[1])
        if any(last_unsub[2] < x[1] < ctick for x in subs.get(cb, [])):
            continue        # subscribed again after that unsubscribe, or by a subscribe call that overlapped it (either order is possible then)
        viol.append({'clause': 'called-after-unsubscribe', 'rank': 2, 'feat': {'what': 'subscriber'},
                     'msg': 'subscriber %d called %.3f ms after unsubscribe returned' % (cb, (tc - last_unsub[0]) / 1e6)})
        break
    # probe: expiries in the same pass
    for a, b in zip(pass_marks, pass_marks[1:]):
        if a[1] == b[1]:
            stats['same_pass_expiries'] += 1
    if not viol:
        for p in st.thread_problems():
            if p == 'job-thread-not-waiting:sleep' and busy_open:
                continue        # parked inside a slow callback of this scenario
            viol.append({'clause': 'job-thread-state', 'rank': 3, 'msg': p})
    res = {'violations': viol[:5], 'stats': stats, 'nontrivial': stats['timer_calls'] > 0, 'digest': sim.digest(), 'sim_s': (sim.now - t0) / 1e9,
           'summary': '%d ops, %d registrations, %d timer calls, %d subscriber calls' % (len(scn['ops']), len(regs), stats['timer_calls'], stats['subscriber_calls'])}
    if keep_log:
        res['log'] = sim.logbuf
    w.close()
    return res


def _resub(scn, cb):
    """True when the history subscribes cb again after an unsubscribe (then later calls are legitimate)."""
    seen_unsub = False
    for o in scn['ops']:
        if o['op'] == 'unsub' and o['cb'] == cb:
            seen_unsub = True
        elif o['op'] == 'sub' and o['cb'] == cb and seen_unsub:
            return True
    return False


def features(scn, v):
    return {}


def shrink(scn):
    yield from gen.drop_each(scn, 'ops', 1)
    k = scn.get('kernel') or {}
    if k.get('lmax_ns') != 5000 or k.get('read_cost_ns') != 1000:
        c = copy.deepcopy(scn)
        c['kernel'] = {'read_cost_ns': 1000, 'lmax_ns': 5000}
        yield c
    for i, o in enumerate(scn['ops']):
        if o.get('ctx') == 'timer':
            c = copy.deepcopy(scn)
            c['ops'][i]['ctx'] = 'app'
            yield c
        if o.get('gap_ms'):
            c = copy.deepcopy(scn)
            c['ops'][i]['gap_ms'] = 0
            yield c
        if o['op'] == 'add':
            if o['period_ms'] not in (10,):
                c = copy.deepcopy(scn)
                c['ops'][i]['period_ms'] = 10
                yield c
            if 'self_remove_after' in o:
                c = copy.deepcopy(scn)
                del c['ops'][i]['self_remove_after']
                yield c
