"""Client/server DM14 topology with simulated blocking application threads (shared by C17, C18, C19)."""
from .. import kernel, refcodec as rc
from ..world import World, payload

C_ADDR, S_ADDR, I_ADDR = 0xF9, 0xD4, 0xE3
PF_DM14, PF_DM15, PF_DM16 = 0xD9, 0xD8, 0xD7
CMD = {'read': 1, 'write': 2}


def key_algo(kind):
    if kind == 'xor':
        return lambda seed: seed ^ 0xFFFF
    if kind == 'add':
        return lambda seed: (seed + 0x1234) & 0xFFFF
    if kind == 'ident':
        return lambda seed: seed
    raise ValueError(kind)


def topo(scn):
    return [{'name': 'C', 'dll': 'j1939-21', 'max_cmdt': scn.get('c_max_cmdt', 1), 'cas': [{'addr': scn.get('c_addr', C_ADDR), 'listen': False}]},
            {'name': 'S', 'dll': 'j1939-21', 'max_cmdt': scn.get('s_max_cmdt', 1), 'cas': [{'addr': S_ADDR, 'listen': False}]}]


def le_values(data, size, signed):
    return [int.from_bytes(bytes(data[i:i + size]), 'little', signed=signed) for i in range(0, len(data) - size + 1, size)]


class Dm14Net:
    """Builds the two stacks, their MemoryAccess objects, and a server application thread that answers
    notifications according to a per-transaction plan."""

    def __init__(self, scn, keep_log=False):
        scn.setdefault('stacks', topo(scn))
        self.scn = scn
        self.c_addr = scn.get('c_addr', C_ADDR)
        self.w = World(scn, keep_log=keep_log)
        self.sim = self.w.sim
        self.bus = self.w.bus
        j = self.w.j
        self.j = j
        self.cca = self.w.stacks['C'].cas[0]
        self.sca = self.w.stacks['S'].cas[0]
        self.client = j.MemoryAccess(self.cca)
        self.server = j.MemoryAccess(self.sca)
        self.proceed_calls = []      # dict(command, address, pointer_type, length, object_count, key, sa, access_level, seed, t)
        self.notify_count = 0
        self.respond_results = []    # (t, plan index, returned data or exception)
        self.respond_rx_marks = []
        self.notify_q = kernel.SimQueue()
        self.plans = []              # server behaviour per notification: dict(action, data, error, edcp, proceed)
        self.plan_i = 0
        self.seeds = list(scn.get('seeds') or [0xA55A])
        self.seed_i = 0
        self.seeds_sent = []
        self.server.set_proceed(self._proceed)
        self.server.set_notify(self._notify)
        if scn.get('server_key'):
            self.server.set_seed_generator(self._seed)
            self.server.set_seed_key_algorithm(key_algo(scn['server_key']))
        if scn.get('client_key'):
            self.client.set_seed_key_algorithm(key_algo(scn['client_key']))
        self.proceed_policy = []     # per proceed invocation: True/False (default True)
        self.server_thread = self.sim.spawn(self._server_app, 'server-app')
        self.client_results = []
        self.sends = []              # (t, 'C'|'S', pdu_format, bytes, result) of every send_pgn the DM14 objects make through their CA
        for who, ca in (('C', self.cca), ('S', self.sca)):
            def send_pgn(data_page, pdu_format, pdu_specific, priority, data, *a, _orig=ca.send_pgn, _who=who, **kw):
                r = _orig(data_page, pdu_format, pdu_specific, priority, data, *a, **kw)
                self.sends.append((self.sim.now, _who, pdu_format, len(data), r))
                return r
            ca.send_pgn = send_pgn
        self.table = {}              # serve_by_ref: one list object per memory object, handed to respond() every time that object is read

    def _rr(self, entry):
        self.respond_results.append(entry)
        self.respond_rx_marks.append(len(self.w.stacks['S'].port.rx_log))      # frames the server had received when respond() returned

    def _data(self, plan):
        if self.scn.get('serve_by_ref') and plan.get('obj') is not None and plan.get('data'):
            return self.table.setdefault(repr(plan['obj']), list(plan['data']))
        return list(plan.get('data') or [])

    def _seed(self):
        s = self.seeds[self.seed_i % len(self.seeds)]
        self.seed_i += 1
        self.seeds_sent.append(s)
        return s

    def _proceed(self, command, address, pointer_type, length, object_count, key, source_addr, access_level, seed):
        k = len(self.proceed_calls)
        self.proceed_calls.append({'command': command, 'address': address, 'pointer_type': pointer_type, 'length': length,
                                   'object_count': object_count, 'key': key, 'sa': source_addr, 'access_level': access_level, 'seed': seed,
                                   't': self.sim.now})
        return self.proceed_policy[k] if k < len(self.proceed_policy) else True

    def _notify(self):
        self.notify_count += 1
        i = self.plan_i
        plan = self.plans[i] if i < len(self.plans) else None
        if self.scn.get('inline_respond') and plan is not None and plan.get('action') == 'respond' and plan.get('data'):
            # a single-threaded serving application: answers a read from inside the notify callback
            self.plan_i += 1
            try:
                r = self.server.respond(plan.get('proceed', True), self._data(plan), plan.get('error', 0xFFFFFF), plan.get('edcp', 0xFF), plan.get('max_timeout', 1))
                self._rr((self.sim.now, i, None if r is None else bytes(bytearray(r))))
            except Exception as e:      # noqa
                self._rr((self.sim.now, i, e))
            return
        self.notify_q.put(1)

    def _server_app(self):
        while True:
            self.notify_q.get(True, None)
            i = self.plan_i
            self.plan_i += 1
            plan = self.plans[i] if i < len(self.plans) else {'action': 'respond', 'proceed': True, 'data': []}
            if plan.get('think_ms'):
                self.sim.sleep(plan['think_ms'] / 1000.0)
            if plan['action'] == 'ignore':
                self._rr((self.sim.now, i, 'ignored'))
                continue
            try:
                r = self.server.respond(plan.get('proceed', True), self._data(plan), plan.get('error', 0xFFFFFF), plan.get('edcp', 0xFF),
                                        plan.get('max_timeout', 1))
                self._rr((self.sim.now, i, None if r is None else bytes(bytearray(r))))
            except Exception as e:      # noqa
                self._rr((self.sim.now, i, e))

    def run_client(self, ops, gap_s=0.3):
        """Run the client operations sequentially in a simulated application thread."""
        def app():
            for k, op in enumerate(ops):
                rec = {'op': op, 't0': self.sim.now, 'result': None, 'exc': None}
                try:
                    if op['op'] == 'read':
                        rec['result'] = self.client.read(S_ADDR, op.get('direct', 1), op['address'], op['count'], op.get('size', 1), op.get('signed', False),
                                                         op.get('raw', False), op.get('max_timeout', 1))
                    else:
                        rec['result'] = self.client.write(S_ADDR, op.get('direct', 1), op['address'], list(op['values']), op.get('size', 1),
                                                          op.get('max_timeout', 1))
                except BaseException as e:      # noqa
                    if isinstance(e, kernel.SimKilled):
                        raise
                    rec['exc'] = e
                rec['t1'] = self.sim.now
                self.client_results.append(rec)
                if op.get('gap_s', gap_s) > 0:      # 0: the next call follows without the thread ever giving up the processor
                    self.sim.sleep(op.get('gap_s', gap_s))
        self.client_thread = self.sim.spawn(app, 'client-app')
        return self.client_thread

    def states(self):
        return {'client_facade': self.client.state.name, 'client_query': self.client.query.state.name,
                'server_facade': self.server.state.name, 'server_state': self.server.server.state.name, 'server_sa': self.server.server.sa,
                'client_server_state': self.client.server.state.name}

    def idle_problems(self):
        s = self.states()
        want = {'client_facade': 'IDLE', 'client_query': 'IDLE', 'server_facade': 'IDLE', 'server_state': 'IDLE', 'server_sa': None,
                'client_server_state': 'IDLE'}
        return ['%s=%s' % (k, s[k]) for k in want if s[k] != want[k]]

    def close(self):
        self.w.close()
