"""C06 - lost frames or a vanished peer end a transfer cleanly, never with corrupt data."""
import copy

from .. import gen, refcodec as rc
from ..world import World, payload
from . import common

ID = 'C06'
LEVEL = 'fault_enumeration'
BUDGET = {'quick': (6000, 80.0), 'thorough': (150000, 1500.0)}
CHUNK = 20
RULE = ('enumeration: for every transfer shape (BAM / RTS-CTS x J1939-21 / -22 x 2,3,5,12 packets x windows 1,2,3,all) a clean run fixes '
        'the F frames of the exchange; then one run per fault point: drop(k) for every k<F, silence(originator,k) and silence(responder,k) '
        'for every k<=F, drop_rx(k, listener) for BAM with two listeners; each followed by a fresh transfer on the same address pair. '
        'Sampled runs add random sizes, addresses, latency policies and two faults per run. non-trivial = the fault actually fired; '
        'distinct = distinct scenario JSON')
FAULT_COUNTERS = {'drop (frame lost for all receivers)': 'fault_drop', 'drop_rx (lost at one receiver)': 'fault_drop_rx', 'silence (node unplugged from frame k on)': 'fault_silence'}
REQUIRED_PROBES = ['fault_fired_runs', 'gave_up_sessions', 'abort3_frames', 'followup_ok']
ASSUMPTIONS = ['silence models an unplugged node: it keeps running but its frames neither go out nor come in; it is re-plugged before the follow-up transfer',
               'give-up bound: last transfer frame sent by / delivered to the stack + T + Lmax + 10 ms polling, T being the standard timeout of the state that event leads to: T1 0.75 s after a received DT/BAM, T2 1.25 s after an own CTS, T3 1.25 s after an own RTS/last DT, T4 1.05 s after a received hold, T5 3 s after an own FD end-of-message status (never tighter than the standard)']

O_ADDR, R_ADDR, R2_ADDR = 0x10, 0x20, 0x30
POLL_NS = 5_000_000


def base_scn(dll, mode, npk, win, listeners=1, lat=None, kernel=None, length=None):
    per = 7 if dll == 'j1939-21' else 60
    n = length if length is not None else per * npk - 3
    stacks = [{'name': 'O', 'dll': dll, 'max_cmdt': win, 'cas': [{'addr': O_ADDR}]},
              {'name': 'R', 'dll': dll, 'max_cmdt': win, 'cas': [{'addr': R_ADDR}]}]
    if listeners == 2:
        stacks.append({'name': 'R2', 'dll': dll, 'max_cmdt': win, 'cas': [{'addr': R2_ADDR}]})
    return {'kernel': kernel or {'read_cost_ns': 1000, 'lmax_ns': 50_000}, 'latency': lat or {'kind': 'const', 'ns': 200_000},
            'stacks': stacks, 'mode': mode, 'len': n, 'fill': 77, 'follow_len': per * 2 + 1, 'faults': []}


def clean_frames(scn):
    c = copy.deepcopy(scn)
    c['faults'] = []
    c['seed'] = 1
    c['no_follow'] = True
    r = execute(c)
    return r['stats']['first_frames']


def shapes(tier):
    out = []
    for dll in ('j1939-21', 'j1939-22'):
        for npk in (2, 3, 5, 12):
            for win in (1, 2, 3, 255):
                out.append(base_scn(dll, 'cmdt', npk, win))
            out.append(base_scn(dll, 'bam', npk, 1, listeners=2))
    return out


def enumerate_cases(tier, master):
    cases = []
    for sh in shapes(tier):
        F = clean_frames(sh)
        for k in range(F):
            c = copy.deepcopy(sh)
            c['faults'] = [{'kind': 'drop', 'k': k}]
            cases.append(c)
            if sh['mode'] == 'bam':
                c = copy.deepcopy(sh)
                c['faults'] = [{'kind': 'drop_rx', 'k': k, 'r': 'R'}]
                cases.append(c)
                c = copy.deepcopy(sh)
                c['faults'] = [{'kind': 'drop', 'k': k}]
                c['early_follow_ms'] = 100
                cases.append(c)
        for k in range(F + 1):
            for node in ('O', 'R'):
                c = copy.deepcopy(sh)
                c['faults'] = [{'kind': 'silence', 'k': k, 'node': node}]
                cases.append(c)
    return cases


def generate(rng, tier, i):
    dll = rng.choice(['j1939-21', 'j1939-22'])
    mode = rng.choice(['cmdt', 'cmdt', 'bam'])
    per = 7 if dll == 'j1939-21' else 60
    npk = rng.choice([2, 3, 4, 5, 8, 12, 20])
    length = max(per * npk - rng.randrange(0, per), 9 if per == 7 else 61)
    names = ['O', 'R', 'R2']
    scn = base_scn(dll, mode, npk, 1, listeners=rng.choice([1, 2]) if mode == 'bam' else 1,
                   lat=gen.draw_latency(rng, False, names), kernel=gen.draw_kernel(rng), length=length)
    for s in scn['stacks']:
        s['max_cmdt'] = rng.choice([1, 2, 3, 5, 255])
    if rng.random() < 0.2:
        for s in scn['stacks']:
            s['rts_cts_interval'] = rng.choice([0.001, 0.01])
    scn['fill'] = rng.randrange(1 << 16)
    scn['follow_len'] = per + 1 + rng.randrange(0, per * 4)
    est = 2 + npk * 2 + 2
    nf = rng.choice([1, 1, 2])
    faults = []
    for _ in range(nf):
        kind = rng.choice(['drop', 'drop', 'silence', 'drop_rx'] if len(scn['stacks']) == 3 else ['drop', 'drop', 'silence'])
        f = {'kind': kind, 'k': rng.randrange(0, est)}
        if kind == 'silence':
            f['node'] = rng.choice(['O', 'R'])
        if kind == 'drop_rx':
            f['r'] = rng.choice(['R', 'R2'])
        faults.append(f)
    scn['faults'] = faults
    if mode == 'bam' and rng.random() < 0.5:
        # the same sender announces its next broadcast before the receivers have given the damaged one up (T1).
        # Exactly one fault in such a run: with one loss in each of the two broadcasts (a data packet of the first, the
        # announcement of the second) no J1939-21 receiver can tell the packets of the second from the rest of the first -
        # that ambiguity belongs to the protocol, not to the library, and is outside "a single frame of a transfer is lost"
        scn['early_follow_ms'] = rng.choice([20, 100, 300, 600])
        scn['faults'] = scn['faults'][:1]
    return scn


def execute(scn, keep_log=False, hook=None):
    w = World(scn, keep_log=keep_log)
    sim, bus = w.sim, w.bus
    fd = scn['stacks'][0]['dll'] == 'j1939-22'
    mode = scn['mode']
    viol = []
    stats = {'fault_fired_runs': 0, 'gave_up_sessions': 0, 'abort3_frames': 0, 'followup_ok': 0, 'delivered_despite_fault': 0,
             'nothing_delivered': 0}
    t0 = sim.now
    sim.run_for(0.02)
    O, R = w.stacks['O'], w.stacks['R']
    pf = 0xD0 if mode == 'cmdt' else 0xFE
    ps = R_ADDR if mode == 'cmdt' else 0xCA
    pgn = rc.sae_pgn(0, pf, ps)
    data = payload(scn['fill'], scn['len'])

    # ---- polling of table occupancy
    last_nonempty = {s: None for s in w.stacks}
    ever_rcv = {s: False for s in w.stacks}
    polling = {'on': True}
    states = set()

    def poll():
        if not polling['on']:
            return
        states.add(common.abstract_state(w))
        for n, s in w.stacks.items():
            t = s.tables()
            if t['rcv'] or t['snd']:
                last_nonempty[n] = sim.now
            if t['rcv']:
                ever_rcv[n] = True
        sim.after(POLL_NS, poll, 'poll')

    t_start = sim.now
    ok = O.cas[0].send_pgn(0, pf, ps, 6, list(data))
    poll()
    data_e = None
    early = {'ok': None}
    if scn.get('early_follow_ms') is not None and mode == 'bam':
        data_e = payload(scn['fill'] + 7, scn['len'] + 2)
        per0 = 60 if fd else 7
        npk0 = (scn['len'] + per0 - 1) // per0

        def early_send():
            early['ok'] = O.cas[0].send_pgn(0, pf, ps, 6, list(data_e))
        sim.after(int(((npk0 + 2) * (0.010 if fd else 0.050) + scn['early_follow_ms'] / 1000.0) * 1e9), early_send, 'op')
    if ok is not True:
        viol.append({'clause': 'send-refused', 'rank': 2, 'msg': 'first send_pgn returned %r' % (ok,)})
    # run the faulty transfer to its end: transfer time + the longest timeout + margin
    per = 60 if fd else 7
    npk = (scn['len'] + per - 1) // per
    bam_iv = 0.010 if fd else 0.050
    horizon = (npk + 2) * (bam_iv if mode == 'bam' else 0.02) + 3.0 + 1.0
    if scn.get('early_follow_ms') is not None and mode == 'bam':
        horizon += (npk + 4) * bam_iv + scn['early_follow_ms'] / 1000.0
    sim.run_for(horizon)
    polling['on'] = False
    t_first_end = sim.now
    first_frames = len(bus.frames)
    first_deliveries = list(w.deliveries)
    fired = sum(bus.fired.values())
    stats['fault_fired_runs'] = int(fired > 0)
    for fk in ('drop', 'drop_rx', 'silence'):
        stats['fault_' + fk] = bus.fired.get(fk, 0)
    stats['first_frames'] = first_frames

    # ---- per stack: frames it sent (incl. those suppressed while unplugged) and frames delivered to it
    tx_log = {n: [] for n in w.stacks}
    for fr in bus.frames + bus.suppressed:
        if fr.src in tx_log:
            tx_log[fr.src].append((fr.t, fr.can_id, fr.data))
    rx_log = {n: [fr for (_t, fr) in s.port.rx_log] for n, s in w.stacks.items()}
    last_act = {}
    for n, s in w.stacks.items():
        ts = [t for (t, _c, _d) in tx_log[n]] + [t for (t, _fr) in s.port.rx_log]
        last_act[n] = max(ts) if ts else t_start

    # ---- (1) exact payload or nothing, at most once
    exact = bytes(data)
    per_listener = {}
    for d in first_deliveries:
        if d['stack'] == 'O':
            # only the end-of-message acknowledgement may be reported to the originator's listeners
            okack = (mode == 'cmdt' and d['pgn'] == pgn and d['sa'] == R_ADDR and
                     (d['data'] == bytes(rc.tp_eoma(len(exact), npk, pgn)) if not fd else
                      (len(d['data']) == 12 and d['data'][0] & 0xF == rc.FD_EOMA)))
            if not okack:
                viol.append({'clause': 'unexpected-delivery', 'rank': 1, 'feat': {'mode': mode},
                             'msg': 'originator got pgn %05X from %d: %s' % (d['pgn'], d['sa'], d['data'][:12].hex())})
            continue
        key = (d['stack'], d['l'])
        per_listener[key] = per_listener.get(key, 0) + 1
        if data_e is not None and d['data'] == bytes(data_e) and d['pgn'] == pgn and d['sa'] == O_ADDR:
            key2 = (d['stack'], d['l'], 'early')
            per_listener[key2] = per_listener.get(key2, 0) + 1
            per_listener[key] -= 1
            continue
        if d['data'] != exact or d['pgn'] != pgn or d['sa'] != O_ADDR:
            kind = 'truncated' if (d['data'] is not None and exact.startswith(d['data'])) else 'mixed'
            viol.append({'clause': 'corrupt-delivery', 'rank': 1, 'feat': {'mode': mode, 'kind': kind},
                         'msg': '%s/%s got %d of %d bytes (%s) of pgn %05X after a lost frame / silent peer' % (
                             d['stack'], d['l'], len(d['data'] or b''), len(exact), kind, d['pgn'])})
    for key, n in per_listener.items():
        if n > 1:
            viol.append({'clause': 'duplicate-delivery', 'rank': 1, 'feat': {'mode': mode}, 'msg': '%s/%s got the message %d times' % (key[0], key[1], n)})
    per_listener = {k: v for k, v in per_listener.items() if v > 0}
    if per_listener:
        stats['delivered_despite_fault'] = 1
    else:
        stats['nothing_delivered'] = 1

    # ---- (2) give-up bound: the standard's timeout for the state the stack is in, derived from the last
    #      transfer frame it sent (incl. frames suppressed while unplugged) or that was delivered to it
    def kind_of(cid, d):
        i = rc.Id(cid)
        if not fd:
            if i.pf == rc.PF_TP_DT:
                return 'dt'
            if i.pf == rc.PF_TP_CM and len(d) == 8:
                return {rc.RTS: 'rts', rc.CTS: 'hold' if d[1] == 0 else 'cts', rc.EOMA: 'eoma', rc.BAM: 'bam', rc.ABORT: 'abort'}.get(d[0], 'other')
        else:
            if i.pf == rc.PF_FD_TP_DT:
                return 'dt'
            if i.pf == rc.PF_FD_TP_CM and len(d) >= 12:
                return {rc.FD_RTS: 'rts', rc.FD_CTS: 'hold' if d[7] == 0 else 'cts', rc.FD_EOMS: 'eoms', rc.FD_EOMA: 'eoma', rc.FD_BAM: 'bam',
                        rc.FD_ABORT: 'abort'}.get(d[0] & 0xF, 'other')
        return 'other'
    # (direction, kind) -> standard timeout [s] of the state entered by that event
    T_STATE = {('tx', 'rts'): 1.25, ('tx', 'dt'): 1.25, ('rx', 'hold'): 1.05, ('tx', 'eoms'): 3.0 if mode == 'cmdt' else 0.05,
               ('tx', 'cts'): 1.25, ('tx', 'hold'): 1.25, ('rx', 'dt'): 0.75, ('rx', 'bam'): 0.75, ('rx', 'rts'): 1.25, ('rx', 'cts'): 1.25,
               ('rx', 'eoms'): 0.05, ('rx', 'eoma'): 0.05, ('tx', 'eoma'): 0.05, ('rx', 'abort'): 0.05, ('tx', 'abort'): 0.05, ('tx', 'bam'): 0.25}
    lmax = scn['kernel']['lmax_ns']
    for n, s in w.stacks.items():
        evs = [(t, 'tx', kind_of(cid, d)) for (t, cid, d) in tx_log[n]] + [(t, 'rx', kind_of(fr.can_id, fr.data)) for (t, fr) in s.port.rx_log]
        # a received abort does not start a new wait: the state (and its timeout) is that of the event before it
        evs = [e for e in evs if e[2] != 'other' and e[0] <= t_first_end and (e[1], e[2]) != ('rx', 'abort')]
        evs.sort(key=lambda e: e[0])
        if evs:
            last_t, direction, kind = evs[-1]
            # several events at the same instant (burst): take the most demanding one
            T = max(T_STATE.get((dr, kd), 1.25) for (t, dr, kd) in evs if t == last_t)
        else:
            last_t, T, direction, kind = t_start, 1.25, '-', '-'
        if mode == 'bam' and n == 'O':
            T = max(T, bam_iv + 0.01)       # the sender is pacing, not waiting
        bound = last_t + int(T * 1e9) + lmax + 2 * POLL_NS + 2_000_000
        t = s.tables()
        if t['rcv'] or t['snd']:
            viol.append({'clause': 'session-never-released', 'rank': 3, 'feat': {'mode': mode, 'side': n},
                         'msg': 'stack %s still holds %s %.2f s after its last transfer frame' % (n, t, (sim.now - last_t) / 1e9)})
        elif last_nonempty[n] is not None and last_nonempty[n] > bound:
            viol.append({'clause': 'gave-up-late', 'rank': 4, 'feat': {'mode': mode, 'side': n, 'after': direction + '-' + kind},
                         'msg': 'stack %s held its session until %.3f s after its last transfer frame (%s %s; the standard allows %.2f s + latency)' % (
                             n, (last_nonempty[n] - last_t) / 1e9, direction, kind, T)})

    # ---- (3) abort with reason 3 when a stack stops waiting for CTS / for connection-mode data
    def aborts_from(n):
        """Reasons of the connection aborts stack n sent *to its peer* (own address as source, the peer's as destination)."""
        out = []
        me, peer = (O_ADDR, R_ADDR) if n == 'O' else (R_ADDR, O_ADDR)
        for (_t, cid, d) in tx_log[n]:
            i = rc.Id(cid)
            if n in ('O', 'R') and (i.sa, i.ps) != (me, peer):
                continue
            if not fd and i.pf == rc.PF_TP_CM and d[0] == rc.ABORT:
                out.append(d[1])
            if fd and i.pf == rc.PF_FD_TP_CM and len(d) >= 12 and (d[0] & 0xF) == rc.FD_ABORT:
                out.append(d[8])
        return out

    def got(n, pred):
        return any(pred(rc.Id(fr.can_id), fr.data) for fr in rx_log[n])
    if mode == 'cmdt':
        r_delivered = any(k[0] == 'R' for k in per_listener)
        if ever_rcv['R'] and not r_delivered:
            stats['gave_up_sessions'] += 1
            if not aborts_from('R'):
                viol.append({'clause': 'no-abort-on-give-up', 'rank': 4, 'feat': {'mode': mode, 'side': 'R'},
                             'msg': 'responder dropped its receive session without sending a connection abort'})
        if fd:
            acked = got('O', lambda i, d: i.pf == rc.PF_FD_TP_CM and len(d) >= 12 and (d[0] & 0xF) == rc.FD_EOMA)
            aborted = got('O', lambda i, d: i.pf == rc.PF_FD_TP_CM and len(d) >= 12 and (d[0] & 0xF) == rc.FD_ABORT)
            all_sent = any(rc.Id(cid).pf == rc.PF_FD_TP_CM and len(d) >= 12 and (d[0] & 0xF) == rc.FD_EOMS for (_t, cid, d) in tx_log['O'])
        else:
            acked = got('O', lambda i, d: i.pf == rc.PF_TP_CM and d[0] == rc.EOMA)
            aborted = got('O', lambda i, d: i.pf == rc.PF_TP_CM and d[0] == rc.ABORT)
            all_sent = any(rc.Id(cid).pf == rc.PF_TP_DT and d[0] == npk for (_t, cid, d) in tx_log['O'])
        if ok is True and not acked:
            stats['gave_up_sessions'] += 1
            # J1939-21: after its last data packet the originator waits for a CTS (re-request) or the acknowledgement, so giving up
            # there is "stops waiting for a CTS" too; J1939-22 waits for the acknowledgement of its end-of-message status only
            if not aborted and not (all_sent and fd) and not aborts_from('O'):
                viol.append({'clause': 'no-abort-on-give-up', 'rank': 4, 'feat': {'mode': mode, 'side': 'O'},
                             'msg': 'originator stopped waiting for a CTS without sending a connection abort'})
    stats['abort3_frames'] = sum(1 for n in w.stacks for r in aborts_from(n) if r == 3)

    viol += common.thread_violations(w)

    # ---- (4) follow-up transfer on the same address pair after re-plugging
    if not scn.get('no_follow'):
        bus.silent.clear()
        bus.faults = []
        sim.run_for(0.2)
        n0 = len(w.deliveries)
        data2 = payload(scn['fill'] + 1, scn['follow_len'])
        ok2 = O.cas[0].send_pgn(0, pf, ps, 6, list(data2))
        if ok2 is not True:
            viol.append({'clause': 'followup-refused', 'rank': 5, 'feat': {'mode': mode},
                         'msg': 'follow-up transfer on the same address pair was refused (%r)' % (ok2,)})
        else:
            npk2 = (scn['follow_len'] + per - 1) // per
            sim.run_for((npk2 + 2) * (bam_iv if mode == 'bam' else 0.02) + 0.5)
            exp = common.Counter()
            for s in scn['stacks'][1:]:
                if mode == 'bam' or s['name'] == 'R':
                    exp[(s['name'], 'ca0', pgn, O_ADDR, bytes(data2))] += 1
            gotc = common.Counter()
            for d in w.deliveries[n0:]:
                if d['stack'] != 'O':
                    gotc[(d['stack'], d['l'], d['pgn'], d['sa'], d['data'])] += 1
            if gotc != exp:
                viol.append({'clause': 'followup-not-delivered', 'rank': 5, 'feat': {'mode': mode},
                             'msg': 'follow-up transfer: expected %d intact deliveries, got %s' % (
                                 sum(exp.values()), [(k[0], k[1], len(k[4] or b'')) for k in gotc])})
            else:
                stats['followup_ok'] = 1
            sim.run_for(0.3)
            viol += common.idle_violations(w, 'after follow-up: ')
            if not viol:
                viol += common.thread_violations(w)
    res = {'violations': viol, 'stats': stats, 'nontrivial': fired > 0, 'digest': sim.digest(), 'sim_s': (sim.now - t0) / 1e9, 'states': states,
           'summary': '%s %s len=%d faults=%s frames=%d' % (scn['stacks'][0]['dll'], mode, scn['len'], scn['faults'], first_frames)}
    if keep_log:
        res['log'] = sim.logbuf
    w.close()
    return res


def features(scn, v):
    f = {'dll': scn['stacks'][0]['dll']}
    kinds = sorted({x['kind'] for x in scn.get('faults', [])})
    f['fault'] = '+'.join(kinds) or 'none'
    return f


def shrink(scn):
    yield from gen.drop_each(scn, 'faults', 1)
    yield from gen.simplify_env(scn)
    per = 7 if scn['stacks'][0]['dll'] == 'j1939-21' else 60
    for n in gen.shrink_int(scn['len'], [per + 1, 2 * per + 1, 3 * per]):
        if n > per + (1 if per == 7 else 0):
            c = copy.deepcopy(scn)
            c['len'] = n
            yield c
    for i, s in enumerate(scn['stacks']):
        if s['max_cmdt'] != 1:
            c = copy.deepcopy(scn)
            c['stacks'][i]['max_cmdt'] = 1
            yield c
    if len(scn['stacks']) == 3 and not any(f.get('r') == 'R2' for f in scn['faults']):
        c = copy.deepcopy(scn)
        del c['stacks'][2]
        yield c
    for i, f in enumerate(scn['faults']):
        for k in gen.shrink_int(f['k'], [0, 1, 2]):
            c = copy.deepcopy(scn)
            c['faults'][i]['k'] = k
            yield c
