"""C18 - DM14 serves no data without the right key, surfaces errors, and recovers."""
import copy

from .. import gen, refcodec as rc
from ..world import payload
from . import common
from .dm14net import Dm14Net, le_values, key_algo, C_ADDR, S_ADDR, PF_DM16, PF_DM15

ID = 'C18'
LEVEL = 'exploration'
BUDGET = {'quick': (12000, 80.0), 'thorough': (250000, 1500.0)}
CHUNK = 20
RULE = ('same client/server topology as C17; generated histories of up to 6 operations on the same objects mixing successes with: wrong key (client algorithm differs '
        'from the server\'s; boundary seeds 0x0001/0xFFFE/0x8000 and arbitrary ones), refusal at the proceed callback, refusal at respond(False, error, edcp 6/7) with '
        'every defined J1939Error code and undefined codes, an error without indicator (edcp 0xFF, recorded only) and an absent server (unplugged for the duration of '
        'the operation), for reads and writes. non-trivial = at least one failure kind fired and was followed by a well-formed operation; distinct = distinct scenario JSON')
FAULT_COUNTERS = {'wrong key': 'wrong_key', 'refusal at the proceed callback': 'refuse_proceed', 'refusal at respond()': 'refuse_respond', 'absent server (silence for the duration of the call)': 'absent'}
REQUIRED_PROBES = ['ops', 'wrong_key', 'refuse_proceed', 'refuse_respond', 'absent', 'recoveries_judged', 'defined_error_codes', 'undefined_error_codes']
ASSUMPTIONS = ['an error DM15 whose EDCP extension says "no error indicator" (0xFF) is recorded, not judged (the statement speaks of responses carrying an indicator)',
               'the serving application always answers a notification (an application that never calls respond() is not a library failure)']
DEFINED = [0x0, 0x1, 0x2, 0x10, 0x11, 0x12, 0x13, 0x16, 0x17, 0x1F, 0x20, 0x21, 0x22, 0x23, 0x24, 0x100, 0x101, 0x102, 0x103, 0x104, 0x105, 0x106, 0x107, 0x108, 0x109,
           0x10A, 0x1000, 0x1001, 0x1002, 0x1003, 0x1004, 0x1005, 0x1006, 0x1007]


def gen_op(rng, with_key):
    size = rng.choice([1, 1, 2, 4])
    count = rng.choice([1, 2, 7, 8, 9, 20]) // size or 1
    addr = rng.choice([0x92000003, 0x1000, 7, rng.getrandbits(32)])
    if rng.random() < 0.5:
        op = {'op': 'read', 'address': addr, 'count': count, 'size': size, 'signed': False, 'raw': True, 'direct': 1, 'fill': rng.randrange(1 << 16)}
    else:
        op = {'op': 'write', 'address': addr, 'values': [rng.getrandbits(8 * size) for _ in range(count)], 'size': size, 'direct': 1}
    kinds = ['ok', 'ok', 'refuse_proceed', 'refuse_respond', 'refuse_respond', 'absent']
    if with_key:
        kinds += ['wrong_key', 'wrong_key']
    op['fail'] = rng.choice(kinds)
    if op['fail'] == 'refuse_respond':
        op['error'] = rng.choice(DEFINED) if rng.random() < 0.7 else rng.choice([0x3, 0xFF, 0x1234, 0xFFFFFE, 0xABCDEF, rng.getrandbits(24)])
        op['edcp'] = rng.choice([7, 7, 6, 0xFF])
    op['max_timeout'] = rng.choice([0.3, 0.5, 1])
    return op


def generate(rng, tier, i):
    key = rng.choice([None, 'xor', 'xor', 'add'])
    scn = {'kernel': gen.draw_kernel(rng), 'latency': gen.draw_latency(rng, False, ['C', 'S']), 'server_key': key, 'client_key': key,
           'seeds': [rng.choice([0x0000, 0x0001, 0xA55A, 0xFFFE, 0xFFFF, 0x8000, rng.randrange(0, 0x10000)]) for _ in range(6)],
           'c_addr': rng.choice([0xF9, 0xF9, 0x00, 253, rng.choice([a for a in range(254) if a != S_ADDR])]),
           'ops': [gen_op(rng, key is not None) for _ in range(rng.choice([1, 2, 2, 3, 4, 6]))]}
    # make sure most histories end with a well-formed operation
    if rng.random() < 0.8:
        scn['ops'][-1]['fail'] = 'ok'
    return scn


def served(op):
    return bytes(payload(op['fill'], op['count'] * op['size']))


def execute(scn, keep_log=False, hook=None):
    scn = copy.deepcopy(scn)
    net = Dm14Net(scn, keep_log=keep_log)
    sim, bus = net.sim, net.bus
    states = set()

    def sample_states():
        st_ = net.states()
        st_['server_sa'] = st_['server_sa'] is not None
        states.add(repr(sorted(st_.items())))
        sim.after(2_000_000, sample_states, 'poll')
    sim.after(2_000_000, sample_states, 'poll')
    viol = []
    stats = {k: 0 for k in REQUIRED_PROBES}
    t0 = sim.now
    ops = scn['ops']
    sim.run_for(0.02)
    lmax = scn['kernel']['lmax_ns']
    marks = []      # per op: dict(frames0, proceed0, notify0)

    # the client application: like Dm14Net.run_client but with per-operation fault set-up
    def app():
        for k, op in enumerate(ops):
            fail = op['fail']
            marks.append({'frames0': len(bus.frames), 'proceed0': len(net.proceed_calls), 'plan0': net.plan_i})
            # per-operation set-up (done by the application between operations)
            if fail == 'wrong_key':
                net.client.query.set_seed_key_algorithm(key_algo('ident'))
            elif scn.get('client_key'):
                net.client.query.set_seed_key_algorithm(key_algo(scn['client_key']))
            net.proceed_policy[:] = [True] * len(net.proceed_calls) + [fail != 'refuse_proceed']
            if fail == 'absent':
                bus.silent.add('S')
            rec = {'op': op, 't0': sim.now, 'result': None, 'exc': None}
            try:
                if op['op'] == 'read':
                    rec['result'] = net.client.read(S_ADDR, op['direct'], op['address'], op['count'], op['size'], op['signed'], op['raw'], op['max_timeout'])
                else:
                    rec['result'] = net.client.write(S_ADDR, op['direct'], op['address'], list(op['values']), op['size'], op['max_timeout'])
            except Exception as e:      # noqa
                rec['exc'] = e
            rec['t1'] = sim.now
            net.client_results.append(rec)
            sim.sleep(0.4)
            if fail == 'absent':
                bus.silent.discard('S')
                sim.sleep(0.05)
    # server plans are looked up per notification, in order; build them lazily from the op that is running
    class Plans(list):
        def __len__(self):
            return 1 << 30

        def __getitem__(self, i):
            k = len(net.client_results)          # index of the operation in progress
            op = ops[min(k, len(ops) - 1)]
            if op['fail'] == 'refuse_respond':
                return {'action': 'respond', 'proceed': False, 'data': [], 'error': op['error'], 'edcp': op['edcp']}
            if op['op'] == 'read':
                return {'action': 'respond', 'proceed': True, 'data': list(served(op))}
            return {'action': 'respond', 'proceed': True, 'data': []}
    net.plans = Plans()
    net.client_thread = sim.spawn(app, 'client-app')
    sim.run_for(len(ops) * 1.7 + 0.5)
    viol += common.thread_violations(net.w)
    for th in (net.client_thread, net.server_thread):
        if th.exc is not None:
            viol.append({'clause': 'app-thread-exception', 'rank': 1, 'msg': '%s: %r' % (th.name, th.exc)})
    prev_fail = 'start'
    for k, op in enumerate(ops):
        if viol:
            break
        fail = op['fail']
        feat = {'fail': fail, 'after': prev_fail}
        stats['ops'] += 1
        if k >= len(net.client_results):
            viol.append({'clause': 'client-call-never-returned', 'rank': 2, 'feat': feat, 'msg': 'operation %d (%s, %s) did not return' % (k, op['op'], fail)})
            break
        rec = net.client_results[k]
        m = marks[k]
        end = marks[k + 1]['frames0'] if k + 1 < len(marks) else len(bus.frames)
        frames = bus.frames[m['frames0']:end]
        proceed_calls = net.proceed_calls[m['proceed0']:(marks[k + 1]['proceed0'] if k + 1 < len(marks) else len(net.proceed_calls))]
        dm16_from_server = [f for f in frames if f.src == 'S' and (rc.Id(f.can_id).pf == PF_DM16 or (rc.Id(f.can_id).pf == rc.PF_TP_CM and rc.le24(f.data, 5) == 0xD700))]
        if fail == 'ok':
            if prev_fail != 'start' and prev_fail != 'ok':
                stats['recoveries_judged'] += 1
            if rec['exc'] is not None:
                viol.append({'clause': 'well-formed-operation-failed', 'rank': 2, 'feat': feat,
                             'msg': 'operation %d (%s) after %s raised %r' % (k, op['op'], prev_fail, rec['exc'])})
                break
            if op['op'] == 'read':
                got = bytes(bytearray(rec['result'])) if rec['result'] is not None else None
                if got != served(op):
                    viol.append({'clause': 'well-formed-read-wrong-data', 'rank': 1, 'feat': feat,
                                 'msg': 'operation %d read after %s returned %s, served %s' % (k, prev_fail, None if got is None else got.hex(), served(op).hex())})
                    break
            else:
                want = b''.join(int(v).to_bytes(op['size'], 'little') for v in op['values'])
                rr = [r for (_t, i, r) in net.respond_results if m['plan0'] <= i and isinstance(r, (bytes, type(None)))]
                mine = [r for (_t, i, r) in net.respond_results if i == m['plan0']]
                if not mine or mine[0] != want:
                    viol.append({'clause': 'well-formed-write-wrong-data', 'rank': 1, 'feat': feat,
                                 'msg': 'operation %d write after %s: serving application got %r, written %s' % (k, prev_fail, mine[0] if mine else None, want.hex())})
                    break
        else:
            stats[fail] += 1
            if fail == 'refuse_respond':
                stats['defined_error_codes' if op['error'] in DEFINED else 'undefined_error_codes'] += 1
            judged = not (fail == 'refuse_respond' and op['edcp'] == 0xFF)
            if judged and rec['exc'] is None:
                viol.append({'clause': 'failure-not-reported', 'rank': 2, 'feat': feat,
                             'msg': 'operation %d (%s, %s) returned %r instead of raising' % (k, op['op'], fail, rec['result'])})
                break
            code = {'wrong_key': 0x1003, 'refuse_proceed': 0x100}.get(fail, op.get('error'))
            if judged and fail != 'absent' and hex(code) not in str(rec['exc']):
                viol.append({'clause': 'exception-does-not-name-code', 'rank': 3, 'feat': feat,
                             'msg': 'operation %d (%s, %s): exception %r does not name error code %s' % (k, op['op'], fail, rec['exc'], hex(code))})
                break
            if fail == 'absent':
                took = rec['t1'] - rec['t0']
                if took > int(op['max_timeout'] * 1e9) + lmax + 5_000_000:
                    viol.append({'clause': 'timeout-late', 'rank': 4, 'feat': feat, 'msg': 'absent server: call returned after %.3f s, max_timeout %.1f s' % (took / 1e9, op['max_timeout'])})
                    break
            if fail == 'wrong_key':
                if proceed_calls:
                    viol.append({'clause': 'application-consulted-without-key', 'rank': 1, 'feat': feat, 'msg': 'proceed callback invoked although the key was wrong: %s' % (proceed_calls[0],)})
                    break
                if dm16_from_server:
                    viol.append({'clause': 'data-served-without-key', 'rank': 1, 'feat': feat, 'msg': 'server sent DM16 data although the key was wrong'})
                    break
        prev_fail = fail
    if not viol:
        p = net.idle_problems()
        if p and ops[-1]['fail'] == 'ok':
            viol.append({'clause': 'not-idle', 'rank': 3, 'msg': 'after the history: ' + ', '.join(p)})
    nt = any(o['fail'] != 'ok' for o in ops[:-1]) and ops[-1]['fail'] == 'ok'
    res = {'violations': viol[:4], 'stats': dict(stats, frames=len(bus.frames)), 'nontrivial': nt, 'digest': sim.digest(), 'sim_s': (sim.now - t0) / 1e9, 'states': states,
           'summary': 'key=%s history=%s' % (scn.get('server_key'), [(o['op'], o['fail']) for o in ops])}
    if keep_log:
        res['log'] = sim.logbuf
    net.close()
    return res


def features(scn, v):
    return {}


def shrink(scn):
    yield from gen.drop_each(scn, 'ops', 1)
    yield from gen.simplify_env(scn)
    for i, op in enumerate(scn['ops']):
        if op['fail'] != 'ok':
            c = copy.deepcopy(scn)
            c['ops'][i]['fail'] = 'ok'
            yield c
        if op['op'] == 'read' and op['count'] > 1:
            c = copy.deepcopy(scn)
            c['ops'][i]['count'] = 1
            yield c
        if op['op'] == 'write' and len(op['values']) > 1:
            c = copy.deepcopy(scn)
            c['ops'][i]['values'] = op['values'][:1]
            yield c
        if op['size'] != 1:
            c = copy.deepcopy(scn)
            c['ops'][i]['size'] = 1
            if op['op'] == 'write':
                c['ops'][i]['values'] = [v & 0xFF for v in op['values']]
            yield c
    if scn.get('server_key') and not any(o['fail'] == 'wrong_key' for o in scn['ops']):
        c = copy.deepcopy(scn)
        c['server_key'] = c['client_key'] = None
        yield c
