"""C19 - a second DM14 requester never disturbs or joins a running transaction."""
import copy

from .. import gen, refcodec as rc
from ..world import payload
from . import common
from .dm14net import Dm14Net, C_ADDR, S_ADDR, I_ADDR, PF_DM14, PF_DM15, PF_DM16

ID = 'C19'
LEVEL = 'fault_enumeration'
BUDGET = {'quick': (8000, 80.0), 'thorough': (120000, 1500.0)}
CHUNK = 20
RULE = ('enumeration: for each transaction shape (read / write x with / without seed-key x single-frame (4 bytes) / multi-packet (20 bytes) data) a clean run fixes the F '
        'bus frames of the transaction; one run per (frame k before the closing DM14, intruder kind, repeat count): an intruding DM14 is put on the bus right after '
        'frame k, from a third source address or from the running requester\'s address with another pointer, once or three times. Sampled runs draw sizes, latencies, '
        'seeds and k. non-trivial = the intruding frame reached the server inside the transaction window; distinct = distinct scenario JSON')
FAULT_COUNTERS = {'intruding DM14 frames': 'intrusions'}
REQUIRED_PROBES = ['intrusions', 'busy_replies', 'other_sa_runs', 'own_sa_runs', 'client_result_unchanged', 'warmup_runs']
ASSUMPTIONS = ['the transaction window ends when the server has received the closing DM14; under per-receiver FIFO an intruder put on the bus after the closing frame arrives '
               'outside the window and may legitimately start a new transaction, so injection points are the frames before the closing one',
               'the error-indicator bytes of the busy reply are recorded, not judged (the statement requires status operation failed / busy)']


def base(op, key, nbytes, **kw):
    scn = {'kernel': kw.get('kernel', {'read_cost_ns': 1000, 'lmax_ns': 20_000}), 'latency': kw.get('latency', {'kind': 'const', 'ns': 200_000}),
           'server_key': key, 'client_key': key, 'seeds': kw.get('seeds', [0xA55A, 0x1234, 0x0F0F, 0x8001]), 'c_max_cmdt': kw.get('cm', 1), 's_max_cmdt': kw.get('cm', 1),
           'op': op, 'nbytes': nbytes, 'address': kw.get('address', 0x92000003), 'fill': kw.get('fill', 21), 'intrude': None}
    return scn


def shapes():
    out = [base(op, key, n) for op in ('read', 'write') for key in (None, 'xor') for n in (4, 20)]
    # the same shapes with seed/key as the *second* transaction on the objects (after an undisturbed first one)
    for op in ('read', 'write'):
        for n in (4, 20):
            b = base(op, 'xor', n)
            b['warmup'] = 'read' if op == 'write' else 'write'
            out.append(b)
    return out


def clean_count(scn):
    c = copy.deepcopy(scn)
    c['intrude'] = None
    c.setdefault('seed', 7)
    return execute(c)['txn_frames']


def enumerate_cases(tier, master):
    cases = []
    for sh in shapes():
        sh = copy.deepcopy(sh)
        sh['seed'] = 4242
        F = clean_count(sh)
        for k in range(F - 1):
            for kind in ('other_sa', 'own_sa'):
                for rep in (1, 3):
                    c = copy.deepcopy(sh)
                    c['intrude'] = {'k': k, 'kind': kind, 'repeat': rep}
                    cases.append(c)
            c = copy.deepcopy(sh)
            c['intrude'] = {'k': k, 'kind': 'other_sa', 'repeat': 1, 'cmd': 4}      # an intruding 'operation completed'
            cases.append(c)
    return cases


def generate(rng, tier, i):
    op = rng.choice(['read', 'write'])
    key = rng.choice([None, 'xor', 'add'])
    n = rng.choice([1, 4, 7, 8, 9, 20, 60, 200])
    scn = base(op, key, n, kernel=gen.draw_kernel(rng), latency=gen.draw_latency(rng, False, ['C', 'S']), seeds=[rng.randrange(1, 0xFFFF) for _ in range(4)],
               cm=rng.choice([1, 3, 255]), address=rng.getrandbits(32), fill=rng.randrange(1 << 16))
    scn['seed'] = rng.randrange(1 << 32)
    scn['warmup'] = rng.choice([None, None, 'read', 'write'])
    scn['c_addr'] = rng.choice([0xF9, 0xF9, 0x00, 0x01, 253, rng.choice([a for a in range(254) if a not in (S_ADDR, I_ADDR)])])
    F = clean_count(scn)
    scn['intrude'] = {'k': rng.randrange(0, max(1, F - 1)), 'kind': rng.choice(['other_sa', 'own_sa']), 'repeat': rng.choice([1, 1, 2, 3])}
    if scn['intrude']['kind'] == 'other_sa':
        scn['intrude']['cmd'] = rng.choice([1, 1, 2, 4, 4, 0])
    return scn


def execute(scn, keep_log=False, hook=None):
    scn = copy.deepcopy(scn)
    net = Dm14Net(scn, keep_log=keep_log)
    sim, bus = net.sim, net.bus
    states = set()

    def sample_states():
        st_ = net.states()
        st_['server_sa'] = st_['server_sa'] is not None
        states.add(repr(sorted(st_.items())))
        sim.after(2_000_000, sample_states, 'poll')
    sim.after(2_000_000, sample_states, 'poll')
    viol = []
    stats = {k: 0 for k in REQUIRED_PROBES}
    t0 = sim.now
    n = scn['nbytes']
    data = bytes(payload(scn['fill'], n))
    if scn['op'] == 'read':
        op = {'op': 'read', 'address': scn['address'], 'count': n, 'size': 1, 'signed': False, 'raw': True, 'direct': 1}
        net.plans.append({'action': 'respond', 'proceed': True, 'data': list(data)})
    else:
        op = {'op': 'write', 'address': scn['address'], 'values': list(data), 'size': 1, 'direct': 1}
        net.plans.append({'action': 'respond', 'proceed': True, 'data': []})
    iport = bus.port('I')
    intr = scn.get('intrude')
    closing = {'seen': False, 'at_server': False}
    injected = []
    txn = {'n': 0}
    sim.run_for(0.02)

    def intruder_frame():
        if intr['kind'] == 'other_sa':
            sa, ptr = I_ADDR, scn['address']
        else:
            sa, ptr = net.c_addr, (scn['address'] + 0x10) & 0xFFFFFFFF
        # command of the intruding DM14: read (1, the default), write (2), operation completed (4), erase (0)
        d = [1, (1 << 4) + (intr.get('cmd', 1) << 1) + 1] + list(ptr.to_bytes(4, 'little')) + [7, 0]
        return rc.make_id(6, 0, PF_DM14, S_ADDR, sa), bytes(d), sa

    armed = [False]

    def observe(fr):
        if fr.src not in ('C', 'S') or not armed[0]:
            return
        i = rc.Id(fr.can_id)
        k = txn['n']
        txn['n'] += 1
        if fr.src == 'C' and i.pf == PF_DM14 and len(fr.data) == 8 and ((fr.data[1] >> 1) & 7) == 4:
            closing['seen'] = True
        if intr is not None and k == intr['k'] and not closing['seen']:
            cid, d, sa = intruder_frame()

            def inject():
                for _ in range(intr['repeat']):
                    injected.append(sim.now)
                    bus.send('I', cid, True, d)
            sim.after(1000, inject, 'op')
    bus.observers.append(observe)
    frames0 = 0
    if scn.get('warmup'):
        # an earlier, undisturbed transaction on the same objects (its key, seed, pointer ... must not leak into the next one)
        wn = 3
        wdata = bytes(payload(scn['fill'] + 1, wn))
        if scn['warmup'] == 'read':
            wop = {'op': 'read', 'address': (scn['address'] + 0x100) & 0xFFFFFFFF, 'count': wn, 'size': 1, 'signed': False, 'raw': True, 'direct': 1}
            net.plans.insert(0, {'action': 'respond', 'proceed': True, 'data': list(wdata)})
        else:
            wop = {'op': 'write', 'address': (scn['address'] + 0x100) & 0xFFFFFFFF, 'values': list(wdata), 'size': 1, 'direct': 1}
            net.plans.insert(0, {'action': 'respond', 'proceed': True, 'data': []})
        net.run_client([wop], gap_s=0.05)
        sim.run_for(1.0)
        if not net.client_results or net.client_results[0]['exc'] is not None:
            viol.append({'clause': 'harness-warmup-failed', 'rank': 9, 'msg': 'the undisturbed first transaction failed: %r' % (net.client_results[0]['exc'] if net.client_results else None,)})
        stats['warmup_runs'] = 1
        net.proceed_calls.clear()
        net.respond_results.clear()
        net.respond_rx_marks.clear()
        net.client_results.clear()
        net.notify_count = 0
        frames0 = len(bus.frames)
    armed[0] = True
    net.run_client([op], gap_s=0.2)
    sim.run_for(2.2)
    viol += common.thread_violations(net.w)
    frames = list(bus.frames[frames0:])
    txn_frames = sum(1 for f in frames if f.src in ('C', 'S'))
    feat = {'kind': intr['kind'] if intr else 'none', 'op': scn['op'], 'key': bool(scn['server_key'])}
    if intr is not None:
        stats['intrusions'] = len(injected)
        stats['other_sa_runs' if intr['kind'] == 'other_sa' else 'own_sa_runs'] = 1
        _cid, _d, isa = intruder_frame()
        # ---- the serving application never sees the intruder; exactly one proceed/notify with the legitimate arguments
        want = {'command': 1 if scn['op'] == 'read' else 2, 'address': scn['address'], 'pointer_type': 1, 'object_count': n, 'sa': net.c_addr}
        for pc in net.proceed_calls:
            if any(pc[f] != want[f] for f in want):
                viol.append({'clause': 'intruder-passed-to-application', 'rank': 1, 'feat': feat,
                             'msg': 'proceed callback saw command %s address %08X count %s from %s; the running transaction is command %s address %08X from %s' % (
                                 pc['command'], pc['address'], pc['object_count'], pc['sa'], want['command'], want['address'], want['sa'])})
                break
        if len(net.proceed_calls) > 1 or net.notify_count > 1:
            viol.append({'clause': 'application-consulted-again', 'rank': 1, 'feat': feat,
                         'msg': 'proceed callback invoked %d times, notify %d times for one transaction' % (len(net.proceed_calls), net.notify_count)})
        # ---- what the server sent to the intruder
        for f in frames:
            if f.src != 'S':
                continue
            i = rc.Id(f.can_id)
            to_intruder = (i.ps == I_ADDR) if intr['kind'] == 'other_sa' else False
            if intr['kind'] == 'other_sa' and to_intruder:
                if i.pf == PF_DM15 and len(f.data) == 8:
                    status = (f.data[1] >> 1) & 7
                    if status in (1, 5):
                        stats['busy_replies'] += 1
                    else:
                        seed = f.data[6] | (f.data[7] << 8)
                        viol.append({'clause': 'intruder-answered-as-requester', 'rank': 1, 'feat': feat,
                                     'msg': 'DM15 to the intruder with status %d (%s): %s' % (status, 'seed' if seed != 0xFFFF else 'proceed/complete', f.data.hex())})
                else:
                    viol.append({'clause': 'intruder-served', 'rank': 1, 'feat': feat, 'msg': 'server sent %08X %s to the intruder' % (f.can_id, f.data.hex())})
        if intr['kind'] == 'own_sa':
            # replies go to the requester address: count failed/busy ones; data for the other pointer must not be served
            for f in frames:
                i = rc.Id(f.can_id)
                if f.src == 'S' and i.pf == PF_DM15 and len(f.data) == 8 and ((f.data[1] >> 1) & 7) in (1, 5):
                    stats['busy_replies'] += 1
            if len([r for r in net.respond_results]) > 1:
                viol.append({'clause': 'other-pointer-served', 'rank': 1, 'feat': feat, 'msg': 'serving application answered %d requests' % len(net.respond_results)})
        # ---- the running transaction is not disturbed (other source address)
        rec = net.client_results[0] if net.client_results else None
        if intr['kind'] == 'other_sa':
            if rec is None:
                viol.append({'clause': 'transaction-disturbed', 'rank': 2, 'feat': feat, 'msg': 'legitimate client call never returned'})
            elif rec['exc'] is not None:
                viol.append({'clause': 'transaction-disturbed', 'rank': 2, 'feat': feat, 'msg': 'legitimate client raised %r' % (rec['exc'],)})
            elif scn['op'] == 'read' and bytes(bytearray(rec['result'] or b'')) != data:
                viol.append({'clause': 'transaction-data-changed', 'rank': 1, 'feat': feat, 'msg': 'legitimate read returned %r, served %s' % (rec['result'], data.hex())})
            elif scn['op'] == 'write' and (not net.respond_results or net.respond_results[0][2] != data):
                viol.append({'clause': 'transaction-data-changed', 'rank': 1, 'feat': feat,
                             'msg': 'serving application got %r for the legitimate write of %s' % (net.respond_results[0][2] if net.respond_results else None, data.hex())})
            else:
                stats['client_result_unchanged'] = 1
            if not viol:
                p = net.idle_problems()
                if p:
                    viol.append({'clause': 'not-idle', 'rank': 3, 'feat': feat, 'msg': 'after the transaction: ' + ', '.join(p)})
    res = {'violations': viol[:4], 'stats': dict(stats, frames=len(frames)), 'nontrivial': bool(injected), 'digest': sim.digest(), 'sim_s': (sim.now - t0) / 1e9, 'states': states,
           'txn_frames': txn_frames,
           'summary': '%s %d bytes key=%s intrude=%s frames=%d' % (scn['op'], n, scn['server_key'], intr, txn_frames)}
    if keep_log:
        res['log'] = sim.logbuf
    net.close()
    return res


def features(scn, v):
    return {}


def shrink(scn):
    intr = scn.get('intrude') or {}
    if intr.get('repeat', 1) > 1:
        c = copy.deepcopy(scn)
        c['intrude']['repeat'] = 1
        yield c
    yield from gen.simplify_env(scn)
    for n in (1, 4, 9):
        if n < scn['nbytes']:
            c = copy.deepcopy(scn)
            c['nbytes'] = n
            yield c
