"""C14 - PGN requests reach exactly the addressed operational CAs; claims are answered."""
import copy

from .. import gen, refcodec as rc
from ..world import World
from . import common

ID = 'C14'
LEVEL = 'exploration'
BUDGET = {'quick': (60000, 80.0), 'thorough': (800000, 1500.0)}
RULE = ('J1939-21: a requester stack (CA operational or without an address) and 1-2 responder stacks holding 1-3 CAs in the claim states operational (bypassed or '
        'really claimed), moved to the next address after losing the preferred one, not started, waiting for veto and cannot-claim (reached by real claim histories with a scripted contender); the requester in any of these states; send_request(0, pgn, dest) '
        'for PGN boundary values and random 18-bit values incl. the address-claim PGN, every destination class (owned, global, unowned, 254, own). '
        'non-trivial = at least one responder CA was operational and one was not; distinct = distinct scenario JSON')
FAULT_COUNTERS = {'requests from an address-less requester (SA 254)': 'requests_from_254', 'requests to an unowned destination': 'unowned_requests'}
REQUIRED_PROBES = ['requests', 'claim_requests', 'callbacks', 'claim_answers', 'requests_from_254', 'global_requests', 'unowned_requests', 'moved_cas_operational']
ASSUMPTIONS = ['send_request is called with data_page=0 (the statement omits the argument; data_page=1 puts the request on PGN 0x1EA00, which is not the Request PGN); '
               'the data-page bit of the *requested* PGN is varied instead']
PGNS = [0, 0xFF, 0xEA00, 0xEE00, 0xEE00, 0xEE00, 0xEE00, 0xFECA, 0xFFFF, 0x10000, 0x1FFFF, 0x20000, 0x3FFFF, 0xD300, 0xEE01, 0xEEFF, 0xEDFF, 0xEF00, 0x1EE00, 0x2EE00, 0x3EE00, 0x2EEFF]
STATE = {0: 'NONE', 1: 'WAIT_VETO', 2: 'NORMAL', 3: 'CANNOT_CLAIM'}
X_ADDR = 0x7E


def generate(rng, tier, i):
    nresp = rng.choice([1, 2])
    used = {X_ADDR}
    moved_from = set()
    stacks = []
    kinds = ['normal', 'normal', 'none', 'veto', 'cannot', 'claimed', 'moved', 'moved']

    def mk_ca(kind):
        while True:
            a = rng.randrange(130, 240) if kind in ('veto', 'cannot') else (rng.randrange(0, 120) if kind in ('claimed', 'moved') else rng.choice([rng.randrange(0, 254), 0, 253, 128]))
            if a not in used and not (kind == 'moved' and (a + 1) in used) and not ((a - 1) in moved_from):
                used.add(a)
                if kind == 'moved':
                    used.add(a + 1)
                    moved_from.add(a)
                break
        aac = 0 if kind == 'cannot' else (1 if kind == 'moved' else rng.getrandbits(1))
        name = ((rng.getrandbits(62) | (1 << 41)) & ~(1 << 48)) | (aac << 63)
        return {'addr': a, 'name': name, 'bypass': kind == 'normal', 'kind': kind}
    q_kind = rng.choice(['normal', 'normal', 'normal', 'none', 'cannot', 'veto', 'moved'])
    stacks.append({'name': 'Q', 'dll': 'j1939-21', 'max_cmdt': 1, 'cas': [mk_ca(q_kind)] + ([mk_ca('normal')] if rng.random() < 0.3 else [])})
    for k in range(nresp):
        stacks.append({'name': 'R%d' % k, 'dll': 'j1939-21', 'max_cmdt': 1, 'cas': [mk_ca(rng.choice(kinds)) for _ in range(rng.randint(1, 3))],
                       'ecu_listeners': rng.choice([[], [], [None]])})
    scn = {'kernel': gen.draw_kernel(rng), 'latency': gen.draw_latency(rng, True, [s['name'] for s in stacks]), 'stacks': stacks}
    reqs = []
    owned = [c['addr'] + (1 if c['kind'] == 'moved' else 0) for s in stacks[1:] for c in s['cas']] + [c['addr'] for s in stacks[1:] for c in s['cas'] if c['kind'] == 'moved']
    for ri in range(rng.randint(1, 5)):
        dest = rng.choice(owned + owned + [255, 255, 254, rng.randrange(0, 254), stacks[0]['cas'][0]['addr']])
        pgn = rng.choice(PGNS) if rng.random() < 0.7 else rng.getrandbits(18)
        reqs.append({'at_ms': 700 + 17 * ri + rng.randint(0, 3), 'pgn': pgn, 'dest': dest})
    # an early window as well (while claim histories are still running: veto CAs not started, moved CAs waiting on their new
    # address): the same CAs are asked again later in another state
    for ri in range(rng.choice([0, 0, 1, 2, 3])):
        dest = rng.choice(owned + [255, 255, 255])
        pgn = rng.choice(PGNS) if rng.random() < 0.7 else rng.getrandbits(18)
        reqs.append({'at_ms': 120 + 17 * ri + rng.randint(0, 3), 'pgn': pgn, 'dest': dest})
    scn['requests'] = sorted(reqs, key=lambda r: r['at_ms'])
    return scn


def execute(scn, keep_log=False, hook=None):
    w = World(scn, keep_log=keep_log)
    sim, bus = w.sim, w.bus
    viol = []
    stats = {k: 0 for k in REQUIRED_PROBES}
    t0 = sim.now
    sim.run_for(0.01)
    base = sim.now
    xport = bus.port('X')
    calls = []          # (stack, ca index, src, dest, pgn)
    allcas = []
    for s in scn['stacks']:
        st = w.stacks[s['name']]
        for k, c in enumerate(s['cas']):
            ca = st.cas[k]
            allcas.append((s['name'], k, c, ca))
            ca.subscribe_request(lambda src, dest, pgn, key=(s['name'], k): calls.append((key[0], key[1], src, dest, pgn)))
            if c['kind'] in ('veto', 'cannot', 'claimed', 'moved'):
                sim.at(base + 600_000_000 if c['kind'] == 'veto' else base, (lambda ca=ca: ca.start(0)), 'op')
            if c['kind'] in ('cannot', 'moved'):
                # a contender with a lower NAME takes the address: a fixed CA ends cannot-claim, an arbitrary-address-capable one moves on
                nv = (c['name'] & ((1 << 63) - 1)) >> 1
                sim.at(base + 60_000_000, (lambda a=c['addr'], nv=nv: bus.send('X', rc.make_id(6, 0, rc.PF_ADDRESS_CLAIM, 255, a), True, nv.to_bytes(8, 'little'))), 'op')
    q = w.stacks['Q'].cas[0]
    mixed = [False, False]

    def request(r):
        n_calls = len(calls)
        n_frames = len(bus.frames)
        # model: who is operational right now, and where
        expect = []
        for (sname, k, c, ca) in allcas:
            if sname == 'Q':
                continue
            op = ca.state == 2
            mixed[0] = mixed[0] or op
            mixed[1] = mixed[1] or not op
            if op and (r['dest'] == 255 or r['dest'] == ca.device_address):
                expect.append((sname, k, ca.device_address, c['name']))
        q_op = q.state == 2
        stats['moved_cas_operational'] += sum(1 for (sn, k, c, ca) in allcas if c['kind'] == 'moved' and ca.state == 2 and ca.device_address == c['addr'] + 1)
        src = q.device_address if q_op else 254
        is_claim = r['pgn'] == 0xEE00
        try:
            q.send_request(0, r['pgn'], r['dest'])
        except Exception as e:      # noqa
            if q_op or is_claim:
                viol.append({'clause': 'request-raised', 'rank': 2, 'feat': {'claim': is_claim, 'requester': STATE.get(q.state)},
                             'msg': 'send_request raised %r for an %s requester (%s), pgn %05X' % (e, 'operational' if q_op else 'address-less', STATE.get(q.state), r['pgn'])})
            return
        if not q_op and not is_claim:
            viol.append({'clause': 'request-not-refused', 'rank': 2, 'msg': 'address-less requester could send a request for pgn %05X' % r['pgn']})
            return
        stats['requests'] += 1
        stats['claim_requests'] += int(is_claim)
        stats['requests_from_254'] += int(not q_op)
        stats['global_requests'] += int(r['dest'] == 255)
        stats['unowned_requests'] += int(not expect)
        # wire format of the request itself
        fr = bus.frames[n_frames] if len(bus.frames) > n_frames else None
        if fr is None:
            viol.append({'clause': 'request-not-sent', 'rank': 2, 'msg': 'send_request put nothing on the bus'})
            return
        i = rc.Id(fr.can_id)
        if (i.pf, i.ps, i.sa, i.dp, i.edp) != (rc.PF_REQUEST, r['dest'] & 0xFF, src, 0, 0) or bytes(fr.data) != bytes(rc.pgn3(r['pgn'])):
            viol.append({'clause': 'request-wire-format', 'rank': 1, 'msg': 'request for %05X to %d went out as %08X %s' % (r['pgn'], r['dest'], fr.can_id, fr.data.hex())})
        sim.run_for(0.012)      # > max latency 5 ms + nested answers
        got = calls[n_calls:]
        answers = []
        for f2 in bus.frames[n_frames + 1:]:
            i2 = rc.Id(f2.can_id)
            if i2.pf == rc.PF_ADDRESS_CLAIM and f2.src != 'X':
                answers.append((f2.src, i2.sa, rc.name_value(f2.data)))
        if is_claim:
            want = sorted((sname, adr, nv) for (sname, k, adr, nv) in expect)
            if got:
                viol.append({'clause': 'callback-for-claim-request', 'rank': 1, 'msg': 'request callbacks invoked for the address-claim PGN: %s' % (got[:3],)})
            if sorted(answers) != want:
                viol.append({'clause': 'claim-answer-mismatch', 'rank': 1, 'feat': {'from254': not q_op},
                             'msg': 'address-claim request to %d from %d: answers (stack, address, NAME) %s, expected %s' % (
                                 r['dest'], src, [(a, b, '%016X' % c) for a, b, c in sorted(answers)], [(a, b, '%016X' % c) for a, b, c in want])})
            stats['claim_answers'] += len(answers)
        else:
            want = sorted((sname, k, src, r['dest'], r['pgn']) for (sname, k, adr, nv) in expect)
            stats['callbacks'] += len(got)
            if sorted(got) != want:
                viol.append({'clause': 'request-callback-mismatch', 'rank': 1, 'feat': {'dest': 'global' if r['dest'] == 255 else 'specific'},
                             'msg': 'request %05X to %d from %d: callbacks %s, expected %s' % (r['pgn'], r['dest'], src, sorted(got), want)})
            if answers:
                viol.append({'clause': 'unexpected-claim-frame', 'rank': 2, 'msg': 'address-claimed frames %s in reply to a request for %05X' % (answers, r['pgn'])})
    for r in scn['requests']:
        sim.at(base + r['at_ms'] * 1_000_000, (lambda r=r: request(r)), 'op')
    sim.run_until(base + 900_000_000)
    viol += common.thread_violations(w)
    res = {'violations': viol[:5], 'stats': dict(stats, frames=len(bus.frames)), 'nontrivial': mixed[0] and mixed[1], 'digest': sim.digest(),
           'sim_s': (sim.now - t0) / 1e9,
           'summary': 'states %s, %d requests' % ([(s, STATE.get(ca.state), ca.device_address) for (s, k, c, ca) in allcas], len(scn['requests']))}
    if keep_log:
        res['log'] = sim.logbuf
    w.close()
    return res


def features(scn, v):
    return {}


def shrink(scn):
    yield from gen.drop_each(scn, 'requests', 1)
    yield from gen.simplify_env(scn)
    if len(scn['stacks']) > 2:
        c = copy.deepcopy(scn)
        del c['stacks'][2]
        yield c
    for si, s in enumerate(scn['stacks']):
        if len(s['cas']) > 1:
            for k in range(len(s['cas'])):
                if si == 0 and k == 0:
                    continue
                c = copy.deepcopy(scn)
                del c['stacks'][si]['cas'][k]
                yield c
