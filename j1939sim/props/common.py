"""Delivery model and shared oracle pieces for stack<->stack transport scenarios (C01, C02, C08, C10...)."""
import copy
from collections import Counter

from .. import refcodec as rc
from ..world import World, payload, thread_exc_site


def msg_dest(m):
    return m['ps'] if (m['pf'] < 240 and m['ps'] != 255) else 255


def msg_mode(scn_stack, m):
    """'single' | 'mpg' | 'cmdt' | 'bam' for a message submitted on the given stack config."""
    fd = scn_stack.get('dll', 'j1939-21') == 'j1939-22'
    n = m['len']
    if (not fd and n <= 8):
        return 'single'
    if fd and n <= 60:
        return 'mpg'
    return 'bam' if msg_dest(m) == 255 else 'cmdt'


def stack_cfg(scn, name):
    for s in scn['stacks']:
        if s['name'] == name:
            return s
    raise KeyError(name)


def listeners_bound(scfg, da, skip_cas=False):
    """Listener ids on a stack that must receive a message addressed to `da` (255 = broadcast),
    assuming every CA of the stack is operational."""
    out = []
    for i, c in enumerate(scfg.get('cas', [])):
        if c.get('listen', True) and (da == 255 or c.get('addr') == da):
            out.append('ca%d' % i)
    for i, adr in enumerate(scfg.get('ecu_listeners', [])):
        if da == 255 or adr is None or adr == da or (isinstance(adr, dict) and da in adr['accept']):
            out.append('ecu%d' % i)
    return out


def stack_owns(scfg, da):
    if any(c.get('addr') == da for c in scfg.get('cas', [])):
        return True
    return any(adr == da for adr in scfg.get('ecu_listeners', []) if isinstance(adr, int))


def msg_class(scn, m):
    """Feature string of a message for violation signatures: mode and addressing class."""
    mode = msg_mode(stack_cfg(scn, m['stack']), m)
    return '%s-%s' % (mode, 'pdu2' if m['pf'] >= 240 else ('pdu1-global' if m['ps'] == 255 else 'pdu1'))


def expected_deliveries(scn, m, data, meta=None):
    """(expected Counter, allowed-extra Counter) of (stack, listener, pgn, sa, data) for one accepted message."""
    src = stack_cfg(scn, m['stack'])
    sa = src['cas'][m['ca']]['addr']
    da = msg_dest(m)
    pgn = rc.sae_pgn(m['dp'], m['pf'], m['ps'])
    mode = msg_mode(src, m)
    exp = Counter()
    extra = Counter()
    b = bytes(data)
    for s in scn['stacks']:
        if s['name'] == src['name']:
            continue
        if da != 255 and not stack_owns(s, da):
            continue
        for l in listeners_bound(s, da):
            exp[(s['name'], l, pgn, sa, b)] += 1
            if meta is not None:
                meta[(s['name'], l, pgn, sa, b)] = msg_class(scn, m)
    if mode == 'cmdt':
        fd = src.get('dll', 'j1939-21') == 'j1939-22'
        for l in listeners_bound(src, sa):
            if fd:
                # 12-byte FD.TP.CM EOMA; session number is not known to the model: accept any
                for sess in range(16):
                    extra[(src['name'], l, pgn, da, bytes(rc.fd_eoma(sess, len(b), rc.nsegments22(len(b)), pgn)))] += 1
            else:
                extra[(src['name'], l, pgn, da, bytes(rc.tp_eoma(len(b), rc.npackets21(len(b)), pgn)))] += 1
    return exp, extra


def compare_deliveries(world, exp, extra, tag='', meta=None):
    meta = meta or {}
    """Exactly-once / intact / nothing-else comparison.  Returns violation dicts."""
    got = Counter()
    for d in world.deliveries:
        got[(d['stack'], d['l'], d['pgn'], d['sa'], d['data'])] += 1
    v = []
    missing = exp - got
    surplus = got - exp
    # remove allowed extras (each at most as often as allowed)
    for k in list(surplus):
        a = min(surplus[k], extra.get(k, 0))
        if a:
            surplus[k] -= a
            if surplus[k] <= 0:
                del surplus[k]
    for k, n in surplus.items():
        stack, l, pgn, sa, data = k
        # classify: same (stack, listener, sa) expected with other content => corrupt; same content => duplicate
        if exp.get(k):
            v.append({'clause': 'duplicate-delivery', 'rank': 1, 'msg': '%s%s/%s got pgn %05X from %d (%d bytes) %d time(s) too many' % (tag, stack, l, pgn, sa, len(data or b''), n),
                      'feat': {'msg': meta.get(k, '?')}})
        else:
            near = [e for e in missing if e[0] == stack and e[1] == l and e[3] == sa]
            if near:
                e = near[0]
                what = []
                if e[2] != pgn:
                    what.append('pgn %05X instead of %05X' % (pgn, e[2]))
                if e[4] != data:
                    what.append('payload differs (%d bytes instead of %d)' % (len(data or b''), len(e[4])))
                clause = 'wrong-pgn' if (e[2] != pgn and e[4] == data) else 'corrupt-delivery'
                v.append({'clause': clause, 'rank': 1, 'msg': '%s%s/%s from %d: %s' % (tag, stack, l, sa, ', '.join(what)),
                          'feat': {'msg': meta.get(e, '?')}})
                missing[e] -= 1
                if missing[e] <= 0:
                    del missing[e]
            else:
                v.append({'clause': 'unexpected-delivery', 'rank': 1, 'msg': '%s%s/%s got pgn %05X from %d (%d bytes: %s) that nobody sent to it' % (tag, stack, l, pgn, sa, len(data or b''), (data or b'')[:12].hex())})
    for k, n in missing.items():
        stack, l, pgn, sa, data = k
        v.append({'clause': 'missing-delivery', 'rank': 2, 'msg': '%s%s/%s never got pgn %05X from %d (%d bytes)' % (tag, stack, l, pgn, sa, len(data)),
                  'feat': {'msg': meta.get(k, '?')}})
    return v


def thread_violations(world):
    v = []
    for s in world.stacks.values():
        job = s.job
        if job.exc is not None:
            site = thread_exc_site(job)
            v.append({'clause': 'thread-death', 'rank': 0, 'msg': 'job thread of %s died: %r at %s' % (s.name, job.exc, site),
                      'feat': {'exc': type(job.exc).__name__, 'site': site}})
        elif job.name in world.sim.livelocked:
            v.append({'clause': 'livelock', 'rank': 0, 'msg': 'job thread of %s busy-spins (killed by the spin guard)' % s.name})
    if not v and world.sim.spin_events:
        v.append({'clause': 'spin', 'rank': 0, 'msg': 'job thread %s made > 2000 clock reads without blocking' % world.sim.spin_events[0][0]})
    return v


def idle_violations(world, tag=''):
    v = []
    for s in world.stacks.values():
        p = [x for x in s.idle_problems() if not x.startswith('job-thread-died') and not x.startswith('job-thread-livelock')]
        if p:
            v.append({'clause': 'not-idle', 'rank': 3, 'msg': '%sstack %s not idle at the end: %s' % (tag, s.name, ', '.join(p))})
    return v


def busy(world):
    for s in world.stacks.values():
        t = s.tables()
        if t['rcv'] or t['snd'] or t.get('mpg'):
            return True
    # (frames on their way, and application operations still to come - e.g. deferred while an application call was parked)
    return any(tag in ('rx', 'op') for (_t, _s, _f, tag) in world.sim.heap)


def settle(world, cap_s, step_s=0.25, extra_s=0.05):
    """Run until no session is open and no frame is in flight (at most cap_s of virtual time)."""
    n = int(cap_s / step_s) + 1
    for _ in range(n):
        world.sim.run_for(step_s)
        if not busy(world):
            break
    world.sim.run_for(extra_s)


def abstract_state(world):
    """Hash-free abstract state: per stack, the multiset of (table, state, remaining bucket)."""
    out = []
    for s in world.stacks.values():
        d = s.dll()
        items = []
        for b in d._snd_buffer.values():
            tot = b.get('num_packages', b.get('num_segments', 0))
            rem = tot - b.get('next_packet_to_send', 0)
            items.append(('s', b.get('state'), 0 if rem <= 0 else (1 if rem == 1 else (2 if rem < tot else 3))))
        for b in d._rcv_buffer.values():
            items.append(('r', 0, 1 if b.get('data') else 0))
        out.append((s.name, tuple(sorted(items))))
    return repr(out)
