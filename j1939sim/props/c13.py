"""C13 - a controller application sends application data only from an address it holds."""
import copy

from .. import gen, refcodec as rc
from ..world import World, payload
from . import common

ID = 'C13'
LEVEL = 'exploration'
BUDGET = {'quick': (40000, 80.0), 'thorough': (500000, 1500.0)}
RULE = ('one real CA (arbitrary-address-capable or fixed; claiming or bypassed) driven through claim histories by a scripted contender that injects address-claimed '
        'frames with a lower or higher NAME for the address the CA currently announces, at instants before, inside and after the veto window; every send entry point '
        '(send_pgn single / RTS-CTS / BAM, send_message, send_request incl. the claim PGN, Dm22, Dm14Query, Dm1 via its timer) is called at drawn instants, and in some runs re-entrantly from inside the stack\'s own k-th transmission; send_request uses PGNs around the address-claim PGN. '
        'non-trivial = at least one call was made while the CA was not operational and one while it was; distinct = distinct scenario JSON')
FAULT_COUNTERS = {"application call re-entrantly inside the stack's own transmission": 'reentrant_calls', 'address losses to the scripted contender (runs)': 'losses', 'address moves (runs)': 'moves'}
REQUIRED_PROBES = ['calls_operational', 'calls_not_operational', 'raised', 'frames_judged', 'losses', 'moves', 'claim_requests_from_254', 'reentrant_calls']
EPS = ['pgn_short', 'pgn_long', 'pgn_bam', 'message', 'request', 'request_claim', 'dm22', 'dm14', 'pgn_short', 'message']
X_ADDR = 0x55
REQ_PGNS = [0xFECA, 0xEEFF, 0xEE01, 0x1EE00, 0x2EE00, 0x3EE00, 0xEF00, 0xED00, 0x0000, 0x3FFFF]
REENTRANT_EPS = ['pgn_short', 'pgn_long', 'message', 'request', 'request_claim', 'dm22']
STATE = {0: 'NONE', 1: 'WAIT_VETO', 2: 'NORMAL', 3: 'CANNOT_CLAIM'}


def generate(rng, tier, i):
    aac = rng.random() < 0.5
    name = (rng.getrandbits(62) | (1 << 40)) & ~(1 << 48) | (int(aac) << 63)
    addr = rng.choice([rng.randrange(128, 240), rng.randrange(128, 240), rng.randrange(0, 120), 248])
    bypass = rng.random() < 0.15
    dll = rng.choice(['j1939-21', 'j1939-21', 'j1939-22'])
    scn = {'kernel': gen.draw_kernel(rng), 'latency': {'kind': rng.choice(['zero', 'const', 'const']), 'ns': rng.choice([1000, 100_000, 2_000_000])},
           'stacks': [{'name': 'S', 'dll': dll, 'max_cmdt': 1, 'cas': [{'addr': addr, 'name': name, 'bypass': bypass}]}],
           'start_ms': rng.choice([None, 0, 0, 50]) if not bypass else None, 'delay_ms': rng.choice([0, 10, 100, 500])}
    ev = []
    for _ in range(rng.choice([0, 1, 1, 2, 3])):
        ev.append({'at_ms': rng.choice([5, 100, 200, 249, 251, 300, 600, 900, 1400, rng.randrange(0, 2000)]), 'lower': rng.random() < 0.6})
    scn['contender'] = sorted(ev, key=lambda e: e['at_ms'])
    calls = []
    for _ in range(rng.randint(2, 10)):
        c = {'at_ms': rng.choice([0, 1, 60, 120, 260, 400, 700, 1000, 1500, 2100, rng.randrange(0, 2200)]), 'ep': rng.choice(EPS)}
        if c['ep'] == 'request':
            c['pgn'] = rng.choice(REQ_PGNS) if rng.random() < 0.8 else rng.getrandbits(18)
        calls.append(c)
    scn['calls'] = sorted(calls, key=lambda c: c['at_ms'])
    # application calls made re-entrantly from inside the stack's own k-th transmission (the send backend calling back,
    # or an application thread running at that very instant)
    scn['reentrant'] = [{'k': rng.randrange(0, 6), 'ep': rng.choice(REENTRANT_EPS)} for _ in range(rng.choice([0, 0, 1, 2]))]
    scn['dm1_at_end'] = rng.random() < 0.4
    return scn


def execute(scn, keep_log=False, hook=None):
    w = World(scn, keep_log=keep_log)
    j = w.j
    sim, bus = w.sim, w.bus
    st = w.stacks['S']
    ca = st.cas[0]
    fd = st.cfg['dll'] == 'j1939-22'
    cfg = st.cfg['cas'][0]
    viol = []
    stats = {k: 0 for k in REQUIRED_PROBES}
    t0 = sim.now
    sim.run_for(0.01)
    base = sim.now
    xport = bus.port('X')
    own_name = cfg['name']
    last_announced = [None]
    lost = {}           # address -> time a lower-NAME claim for it was delivered to the stack
    tp_pfs = (rc.PF_TP_CM, rc.PF_TP_DT, rc.PF_FD_TP_CM, rc.PF_FD_TP_DT)

    txn = [0]
    depth = [0]

    def observe(fr):
        if fr.src != 'S':
            return
        i = rc.Id(fr.can_id)
        if i.pf == rc.PF_ADDRESS_CLAIM:
            if i.sa != 254:
                last_announced[0] = i.sa
            return
        stats['frames_judged'] += 1
        state, held = ca.state, ca.device_address
        # independent of what the CA believes: an address taken by a contender with a lower NAME is lost for good
        if i.sa in lost and i.pf not in tp_pfs:
            viol.append({'clause': 'frame-from-lost-address', 'rank': 1,
                         'msg': 'frame %08X sent from address %d, which a contender with a lower NAME claimed %.1f ms earlier (CA is %s and believes it holds %s)' % (
                             fr.can_id, i.sa, (sim.now - lost[i.sa]) / 1e6, STATE.get(state), held)})
            return
        if i.sa == 254:
            if i.pf == rc.PF_REQUEST and len(fr.data) >= 3 and rc.le24(fr.data, 0) == 0xEE00:
                stats['claim_requests_from_254'] += 1
                return
            if fd and i.pf == rc.PF_MULTI_PG:
                # on J1939-22 the request travels as a contained parameter group of a multi-PG frame
                try:
                    groups, _rest = rc.mpg_decode(fr.data)
                except ValueError:
                    groups = []
                if groups and all(cpgn == 0xEA00 and len(pl) >= 3 and rc.le24(pl, 0) == 0xEE00 for (_a, _b, cpgn, pl) in groups):
                    stats['claim_requests_from_254'] += 1
                    return
            viol.append({'clause': 'frame-from-null-address', 'rank': 1, 'msg': 'frame %08X sent from address 254 while %s' % (fr.can_id, STATE.get(state))})
            return
        if state != 2 or i.sa != held:
            kind = 'transport-in-flight' if i.pf in tp_pfs else 'application'
            viol.append({'clause': 'frame-from-address-not-held', 'rank': 1, 'feat': {'frame': kind},
                         'msg': 'frame %08X (PF %02X) sent from address %d while the CA is %s and holds %s' % (
                             fr.can_id, i.pf, i.sa, STATE.get(state), held if state == 2 else 'no address')})
    bus.observers.append(observe)

    def reenter(fr):
        if fr.src != 'S':
            return
        k = txn[0]
        txn[0] += 1
        if depth[0] == 0:
            for r in scn.get('reentrant', []):
                if r['k'] == k:
                    depth[0] += 1
                    try:
                        stats['reentrant_calls'] += 1
                        call({'ep': r['ep'], 'pgn': 0xFECA}, reentrant=True)
                    finally:
                        depth[0] -= 1
    bus.post_hooks.append(reenter)

    if scn.get('start_ms') is not None:
        sim.at(base + scn['start_ms'] * 1_000_000, lambda: ca.start(scn['delay_ms'] / 1000.0), 'op')
    for e in scn['contender']:
        def contend(e=e):
            adr = last_announced[0]
            if adr is None and cfg['bypass']:
                adr = cfg['addr']       # a CA started with claiming bypassed holds its address without ever announcing it
            if adr is None:
                return
            nv = (own_name - 1 - (own_name >> 2)) if e['lower'] else min(own_name + 12345, (1 << 64) - 1)
            nv &= ~(1 << 48)
            if nv == own_name:
                nv ^= 1
            bus.send('X', rc.make_id(6, 0, rc.PF_ADDRESS_CLAIM, 255, adr), True, nv.to_bytes(8, 'little'))
            if e['lower']:
                lat_ns = 0 if scn['latency']['kind'] == 'zero' else scn['latency']['ns']
                sim.after(lat_ns + 1, (lambda adr=adr: lost.setdefault(adr, sim.now)), 'op')
        sim.at(base + e['at_ms'] * 1_000_000, contend, 'op')

    dm22 = j.Dm22(ca)
    q = {'n': 0}

    def call(c, reentrant=False):
        state = ca.state
        operational = state == 2
        stats['calls_operational' if operational else 'calls_not_operational'] += 1
        ep = c['ep']
        exc = None
        try:
            if ep == 'pgn_short':
                ca.send_pgn(0, 0xD0, X_ADDR, 6, payload(1, 8 if not fd else 20))
            elif ep == 'pgn_long':
                ca.send_pgn(0, 0xD1, X_ADDR, 6, payload(2, 30 if not fd else 150))
            elif ep == 'pgn_bam':
                ca.send_pgn(0, 0xFE, 0xCA, 6, payload(3, 40 if not fd else 200))
            elif ep == 'message':
                ca.send_message(6, 0xFECA, [1, 2, 3, 4, 5, 6, 7, 8])
            elif ep == 'request':
                ca.send_request(0, c.get('pgn', 0xFECA), 255)
            elif ep == 'request_claim':
                ca.send_request(0, 0xEE00, 255)
            elif ep == 'dm22':
                dm22.request_clear_act_dtc(X_ADDR, 100, 3)
            elif ep == 'dm14':
                q['n'] += 1
                res = {}

                def app():
                    res['state'] = ca.state
                    try:
                        j.Dm14Query(ca).read(X_ADDR, 1, 0x1000, 1, max_timeout=0.02)
                        res['exc'] = None
                    except Exception as e:      # noqa
                        res['exc'] = e
                th = sim.spawn(app, 'dm14-app-%d' % q['n'])
                sim.run_for(0.05)
                exc = res.get('exc')
                state = res.get('state', state)
                operational = state == 2
                if exc is not None and 'address claiming' not in str(exc):
                    exc = None      # "No response from server": the request itself was sent
        except Exception as e:      # noqa
            exc = e
        raised = exc is not None
        stats['raised'] += int(raised)
        expect_raise = (not operational) and ep != 'request_claim'
        if raised != expect_raise:
            viol.append({'clause': 'raise-mismatch', 'rank': 2, 'feat': {'ep': ep, 'state': STATE.get(state), 'reentrant': reentrant},
                         'msg': '%s%s while %s: %s' % (ep, (' (pgn %05X)' % c['pgn']) if 'pgn' in c and ep == 'request' else '', STATE.get(state), ('raised %r' % (exc,)) if raised else 'did not raise')})
    for c in scn['calls']:
        sim.at(base + c['at_ms'] * 1_000_000, (lambda c=c: call(c)), 'op')
    sim.run_until(base + 2_400_000_000)
    s_end = ca.state
    if s_end == 2 and scn.get('start_ms') is not None:
        if ca.device_address != cfg['addr']:
            stats['moves'] += 1
    if s_end == 3:
        stats['losses'] += 1
    # let in-flight transfers finish / time out (frames keep being judged)
    sim.run_for(1.6)
    tv = common.thread_violations(w)
    viol += tv
    if scn.get('dm1_at_end') and not tv:
        dm1 = j.Dm1(ca)
        n0 = len(bus.frames)
        dm1.start_send(lambda: ({'pl': 0, 'awl': 1, 'rsl': 0, 'mil': 0}, [{'spn': 100, 'fmi': 1, 'oc': 1}]), 0.05)
        operational = ca.state == 2
        sim.run_for(0.2)
        sent = len(bus.frames) - n0
        died = st.job.exc is not None
        if operational and (sent == 0 or died):
            viol.append({'clause': 'dm1-not-sent', 'rank': 3, 'msg': 'operational CA: DM1 timer sent %d frames, job thread died=%s' % (sent, died)})
        if not operational and (sent != 0 or not died):
            viol.append({'clause': 'raise-mismatch', 'rank': 2, 'feat': {'ep': 'dm1', 'state': STATE.get(ca.state)},
                         'msg': 'DM1 send while %s: %d frames on the bus, raised=%s' % (STATE.get(ca.state), sent, died)})
    res = {'violations': viol[:5], 'stats': dict(stats, frames=len(bus.frames)),
           'nontrivial': stats['calls_operational'] > 0 and stats['calls_not_operational'] > 0, 'digest': sim.digest(), 'sim_s': (sim.now - t0) / 1e9,
           'summary': 'aac=%s bypass=%s start=%s contender=%s calls=%d final=%s@%s' % (bool(own_name >> 63), cfg['bypass'], scn.get('start_ms'),
                                                                                   scn['contender'], len(scn['calls']), STATE.get(ca.state), ca.device_address)}
    if keep_log:
        res['log'] = sim.logbuf
    w.close()
    return res


def features(scn, v):
    return {'dll': scn['stacks'][0]['dll']}


def shrink(scn):
    yield from gen.drop_each(scn, 'calls', 0)
    yield from gen.drop_each(scn, 'contender', 0)
    yield from gen.drop_each(scn, 'reentrant', 0)
    if scn.get('dm1_at_end'):
        c = copy.deepcopy(scn)
        c['dm1_at_end'] = False
        yield c
    k = scn.get('kernel') or {}
    if k.get('lmax_ns') != 5000 or k.get('read_cost_ns') != 1000:
        c = copy.deepcopy(scn)
        c['kernel'] = {'read_cost_ns': 1000, 'lmax_ns': 5000}
        yield c
    if scn.get('delay_ms'):
        c = copy.deepcopy(scn)
        c['delay_ms'] = 0
        yield c
