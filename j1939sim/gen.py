"""Shared scenario-generation and shrinking helpers (swarm style, boundary values over-weighted)."""
import copy

ADDR_BOUNDARY = [0, 1, 127, 128, 247, 248, 253]
WINDOWS = [1, 2, 3, 5, 8, 16, 255]


def draw_kernel(rng):
    return {'read_cost_ns': rng.choice([200, 1000, 1000, 2000, 5000]),
            'lmax_ns': rng.choice([5_000, 50_000, 50_000, 500_000, 2_000_000]),
            # schedule fault: probability that a thread woken through a queue runs at once while the waker is pre-empted right after put()
            'eager_wake': rng.choice([0, 0, 0, 0.3, 1.0])}


def draw_latency(rng, allow_zero=True, names=()):
    kinds = ['const', 'uniform', 'uniform', 'bimodal', 'skew']
    if allow_zero:
        kinds += ['zero', 'zero']
    k = rng.choice(kinds)
    lo = 0 if allow_zero else 1000
    if k == 'zero':
        return {'kind': 'zero'}
    if k == 'const':
        return {'kind': 'const', 'ns': rng.choice([lo or 1000, 10_000, 100_000, 1_000_000, 5_000_000])}
    if k == 'uniform':
        return {'kind': 'uniform', 'min_ns': lo, 'max_ns': rng.choice([50_000, 1_000_000, 5_000_000])}
    if k == 'bimodal':
        return {'kind': 'bimodal', 'min_ns': lo, 'ns': 5_000_000, 'p': rng.choice([0.1, 0.5, 0.9])}
    return {'kind': 'skew', 'ns': 100_000, 'per': {n: rng.choice([lo or 1000, 100_000, 2_000_000, 5_000_000]) for n in names}}


def draw_addresses(rng, n, exclude=()):
    out = []
    while len(out) < n:
        a = rng.choice(ADDR_BOUNDARY) if rng.random() < 0.35 else rng.randrange(0, 254)
        if a not in out and a not in exclude:
            out.append(a)
    return out


def len21(rng):
    """Payload length class for J1939-21 (0..1785)."""
    c = rng.random()
    if c < 0.12:
        return rng.randrange(0, 9)
    if c < 0.2:
        return 9
    if c < 0.55:
        k = rng.choice([2, 2, 3, 4, 5, 8, 16, 37, 100, 254, 255])
        return max(9, min(1785, 7 * k + rng.choice([-1, 0, 1])))
    if c < 0.63:
        return rng.choice([1784, 1785])
    if c < 0.9:
        return rng.randrange(9, 200)
    return rng.randrange(9, 1786)


def len22(rng, big=20000):
    c = rng.random()
    if c < 0.1:
        return 61
    if c < 0.5:
        k = rng.choice([2, 2, 3, 4, 5, 8, 16, 33])
        return max(61, 60 * k + rng.choice([-1, 0, 1]))
    if c < 0.9:
        return rng.randrange(61, 800)
    return rng.randrange(61, big + 1)


# ------------------------------------------------------------------------------------------ shrinking
def drop_each(scn, key, min_len=0):
    lst = scn.get(key) or []
    if len(lst) <= min_len:
        return
    # halves first, then single elements
    if len(lst) > 3:
        h = len(lst) // 2
        for part in (lst[:h], lst[h:]):
            if len(part) >= min_len:
                c = copy.deepcopy(scn)
                c[key] = copy.deepcopy(part)
                yield c
    for i in range(len(lst)):
        c = copy.deepcopy(scn)
        del c[key][i]
        yield c


def simplify_env(scn):
    """Candidates with a simpler latency policy / kernel knobs."""
    lat = scn.get('latency') or {}
    if lat.get('kind') not in ('const', 'zero'):
        c = copy.deepcopy(scn)
        c['latency'] = {'kind': 'const', 'ns': 100_000}
        yield c
    if lat.get('kind') == 'const' and lat.get('ns') != 100_000:
        c = copy.deepcopy(scn)
        c['latency'] = {'kind': 'const', 'ns': 100_000}
        yield c
    k = scn.get('kernel') or {}
    if k.get('eager_wake'):
        c = copy.deepcopy(scn)
        c['kernel'] = dict(k, eager_wake=0)
        yield c
    if k.get('lmax_ns', 50_000) != 5_000 or k.get('read_cost_ns', 1000) != 1000:
        c = copy.deepcopy(scn)
        c['kernel'] = {'read_cost_ns': 1000, 'lmax_ns': 5_000, 'eager_wake': k.get('eager_wake', 0)}
        yield c


def shrink_int(v, targets):
    """Smaller candidate values for an integer, nearest simple targets first."""
    out = []
    for t in targets:
        if t < v and t not in out:
            out.append(t)
    if v > 1 and v // 2 not in out:
        out.append(v // 2)
    if v - 1 >= 0 and v - 1 not in out:
        out.append(v - 1)
    return out
