"""Seeded search driver: process pool, budgets, known-finding matching, minimisation, replay files,
determinism self-test and evidence writer.  One invocation decides one property."""
import copy
import faulthandler
import fnmatch
import hashlib
import importlib
import json
import multiprocessing
import os
import signal
import subprocess
import sys
import time
import traceback
from concurrent.futures import ProcessPoolExecutor, as_completed

VERIF = os.path.dirname(os.path.dirname(os.path.abspath(__file__)))
REPO = os.environ.get('VERIF_REPO', '/repo')
EVIDENCE_DIR = os.environ.get('VERIF_EVIDENCE_DIR', os.path.join(VERIF, 'evidence'))
REPLAY_DIR = os.environ.get('VERIF_REPLAY_DIR', os.path.join(VERIF, 'replays'))
DEFAULT_SEED = 20260925
RUN_WALL_LIMIT_S = 60           # one simulated run may not take longer (wall) than this

ASSUMPTIONS = [
    'virtual clock is strictly increasing (each read costs read_cost ns) and a sleeper wakes strictly after its deadline; no clock jumps',
    'thread wake-up latency is drawn per wake from [1 us, Lmax]; every timing bound adds Lmax',
    'bus is a serialising broadcast medium with per-receiver FIFO delivery; no bit errors, arbitration or bus-off',
    'frame reception runs to completion (rx context) while the job thread is parked, except at chosen pre-emption points',
    'stub: bus, clock, queue blocking, thread creation, reference peers, application callbacks; real: everything under /repo/j1939',
]


class RunTimeout(BaseException):
    pass


_ALARM = {'fired': False}


def _alarm(signum, frame):
    _ALARM['fired'] = True
    raise RunTimeout()


def load(pid):
    return importlib.import_module('j1939sim.props.' + pid.lower())


def run_seed(master, pid, i):
    h = hashlib.sha256(('%d:%s:%d' % (master, pid, i)).encode()).digest()
    return int.from_bytes(h[:8], 'big')


def scenario_for(mod, master, tier, i):
    import random
    rs = run_seed(master, mod.ID, i)
    rng = random.Random(rs)
    scn = mod.generate(rng, tier, i)
    scn.setdefault('seed', rs & 0xFFFFFFFF)
    scn['prop'] = mod.ID
    return scn


def lib_site_of_exception(e):
    tb = e.__traceback__
    site = None
    while tb is not None:
        fn = tb.tb_frame.f_code.co_filename
        if fn.startswith(REPO) and '/j1939/' in fn:
            site = '%s:%s' % (os.path.basename(fn), tb.tb_frame.f_code.co_name)
        tb = tb.tb_next
    return site


def safe_execute(mod, scn, keep_log=False):
    """Run one scenario under a wall-clock alarm.  Returns a result dict; harness problems are
    reported under 'harness', never as violations - except a hang whose innermost frames are in
    the library (an endless loop while handling a frame), which is a violation clause 'hang'."""
    from . import kernel
    signal.signal(signal.SIGALRM, _alarm)
    _ALARM['fired'] = False
    signal.setitimer(signal.ITIMER_REAL, RUN_WALL_LIMIT_S)
    try:
        try:
            res = mod.execute(scn, keep_log=keep_log) if keep_log else mod.execute(scn)
        except Exception as e0:
            if _ALARM['fired']:
                # the alarm interrupted the interpreter's own locking code (threading raises RuntimeError then): it is the time-out all the same
                raise RunTimeout() from e0
            raise
    except RunTimeout as e:
        site = lib_site_of_exception(e)
        if not site and kernel.CURRENT is not None and kernel.CURRENT.current is not None:
            # the alarm caught the scheduler waiting for a simulated thread: where is that thread?
            try:
                site = kernel._library_site(kernel.CURRENT.current)
            except Exception:
                site = ''
        if site:
            res = {'violations': [{'clause': 'hang', 'msg': 'no progress for %ds wall inside %s' % (RUN_WALL_LIMIT_S, site),
                                   'feat': {'site': site}}], 'stats': {}, 'nontrivial': True, 'digest': 'hang'}
        elif kernel.CURRENT is not None and kernel.CURRENT.events_run > 200_000:
            # the alarm fired in the simulator's own loop while it was serving an endless stream of events of the simulated system
            res = {'violations': [{'clause': 'runaway', 'msg': '%d simulator events in %d s of wall time and no end: the stacks keep reacting to each other' % (
                kernel.CURRENT.events_run, RUN_WALL_LIMIT_S), 'feat': {}}], 'stats': {}, 'nontrivial': True, 'digest': 'runaway'}
        else:
            res = {'violations': [], 'harness': 'run exceeded wall limit outside library code:\n' + traceback.format_exc(),
                   'stats': {}, 'nontrivial': False, 'digest': 'timeout'}
    except kernel.LibraryHang as e:
        if 'self-deadlock' in e.site or 'blocked for ever' in e.site or 'full queue' in e.site:
            msg = '%s never returns: %s' % (e.thread, e.site)
        else:
            msg = 'thread %s made no progress for %.0f s of wall time inside %s (endless or super-linear loop)' % (e.thread, 20.0, e.site)
        res = {'violations': [{'clause': 'hang', 'msg': msg, 'feat': {'site': e.site}}], 'stats': {}, 'nontrivial': True, 'digest': 'hang'}
    except kernel.IllegalFrame as e:
        res = {'violations': [{'clause': 'illegal-frame', 'msg': 'the stack handed send_message a frame no CAN interface can send: %s' % e, 'feat': {}}],
               'stats': {}, 'nontrivial': True, 'digest': 'illegal-frame'}
    except kernel.EventBudgetExceeded as e:
        # the simulated system keeps producing events without end (frames answering frames): unbounded activity of the code under
        # test, not a simulator failure - no scenario of any check comes near the budget on a tree where the stack settles
        res = {'violations': [{'clause': 'runaway', 'msg': 'more than %d simulator events in one run: the stacks keep reacting to each other without end' % e.budget,
                               'feat': {}}], 'stats': {}, 'nontrivial': True, 'digest': 'runaway'}
    except kernel.HarnessError as e:
        res = {'violations': [], 'harness': 'HarnessError: %s\n%s' % (e, traceback.format_exc()), 'stats': {},
               'nontrivial': False, 'digest': 'harness'}
    except Exception as e:  # a bug in the harness or an exception escaping the library into the harness
        site = lib_site_of_exception(e)
        last = traceback.extract_tb(e.__traceback__)[-1].filename if e.__traceback__ else ''
        if site and last.startswith(REPO) and '/j1939/' in last:
            # raised inside the library and not caught by the harness: an entry point that raised for a call every check considers legal
            # (entry points that may raise are called inside try/except by the checks)
            res = {'violations': [{'clause': 'api-raised', 'msg': '%r escaped from %s' % (e, site), 'feat': {'exc': type(e).__name__, 'site': site}}],
                   'stats': {}, 'nontrivial': True, 'digest': 'api-raised'}
        else:
            res = {'violations': [], 'harness': 'exception in harness: %r\n%s' % (e, traceback.format_exc()), 'stats': {},
                   'nontrivial': False, 'digest': 'harness'}
    finally:
        signal.setitimer(signal.ITIMER_REAL, 0)
        if kernel.CURRENT is not None:
            try:
                kernel.CURRENT.shutdown()
            except BaseException:
                pass
    return res


def signature(mod, scn, v):
    feat = dict(v.get('feat') or {})
    if hasattr(mod, 'features'):
        for k, val in mod.features(scn, v).items():
            feat.setdefault(k, val)
    return '%s/%s/%s' % (mod.ID, v['clause'], ';'.join('%s=%s' % (k, feat[k]) for k in sorted(feat)))


def primary_violation(vs):
    """Causal priority: thread death > livelock/spin > hang > corrupt > missing > leak > timing > follow-up."""
    order = ['thread-death', 'livelock', 'spin', 'hang']

    def rank(v):
        c = v['clause']
        for i, o in enumerate(order):
            if c.startswith(o):
                return i
        return len(order) + v.get('rank', 5)
    return sorted(vs, key=rank)[0]


# ------------------------------------------------------------------------------------------- worker
_CASES = None


def _work(pid, tier, master, indices, use_cases):
    cases = _CASES if use_cases else None
    faulthandler.enable()
    faulthandler.dump_traceback_later(RUN_WALL_LIMIT_S * 3 + 120, exit=True)
    sys.stdout = open(os.devnull, 'w')    # the library print()s
    mod = load(pid)
    out = {'n': 0, 'nontrivial': set(), 'viol': [], 'harness': [], 'stats': {}, 'samples': [], 'sim_s': 0.0,
           'digests': {}, 'wall': 0.0, 'states': set(), 'known': {}}
    findings = load_findings()
    t0 = time.time()
    from . import kernel
    for i in indices:
        # (armed per run: a chunk may contain several runs that each spend their wall limit)
        faulthandler.cancel_dump_traceback_later()
        faulthandler.dump_traceback_later(RUN_WALL_LIMIT_S * 3 + 120, exit=True)
        if kernel.ZOMBIES or (out['n'] > 0 and time.time() - t0 > 45.0):
            # (likewise when the chunk has already taken 45 s - runs that spend their wall limit: report what is there instead of
            #  holding everything back until the whole chunk is through)
            # a thread of an earlier run in this process could not be stopped and keeps burning CPU: what this process would measure from
            # now on is distorted, the rest of the chunk is left out (counted as skipped)
            out.setdefault('skipped', 0)
            out['skipped'] += 1
            continue
        try:
            scn = cases[i] if cases is not None else scenario_for(mod, master, tier, i)
        except Exception as e:
            out['n'] += 1
            out['harness'].append((i, 'scenario generation failed: %r\n%s' % (e, traceback.format_exc()[-2000:]), None))
            continue
        if cases is not None:
            scn = copy.deepcopy(scn)
            scn.setdefault('seed', run_seed(master, pid, i) & 0xFFFFFFFF)
            scn['prop'] = pid
        res = safe_execute(mod, scn)
        out['n'] += 1
        out['digests'][i] = res.get('digest')
        if res.get('harness'):
            out['harness'].append((i, res['harness'][-3000:], scn))
            continue
        if res.get('nontrivial'):
            out['nontrivial'].add(hashlib.sha256(json.dumps(scn, sort_keys=True).encode()).hexdigest()[:16])
        for k, val in (res.get('stats') or {}).items():
            if isinstance(val, (int, float)):
                out['stats'][k] = out['stats'].get(k, 0) + val
        out['sim_s'] += res.get('sim_s', 0.0)
        for st in res.get('states', ()):
            out['states'].add(st)
        if res['violations']:
            # violations matching an open known finding are counted, the rest of the run is still judged
            rest = []
            for v in res['violations']:
                f = match_open_finding(findings, pid, signature(mod, scn, v))
                if f is not None:
                    out['known'][f['signature']] = out['known'].get(f['signature'], 0) + 1
                else:
                    rest.append(v)
            if not rest:
                continue
            pv = primary_violation(rest)
            if len(out['viol']) < 40:
                out['viol'].append((i, signature(mod, scn, pv), pv, scn, [v['clause'] for v in res['violations']]))
            else:
                out['viol'].append((i, signature(mod, scn, pv), None, None, None))
        elif len(out['samples']) < 2 and res.get('nontrivial'):
            out['samples'].append({'index': i, 'scenario': scn, 'summary': res.get('summary')})
    out['wall'] = time.time() - t0
    faulthandler.cancel_dump_traceback_later()
    return out


# ------------------------------------------------------------------------------------------- findings
def load_findings():
    p = os.path.join(VERIF, 'known_findings.json')
    if not os.path.exists(p):
        return []
    return json.load(open(p)).get('findings', [])


def match_open_finding(findings, pid, sig):
    for f in findings:
        if f.get('property') == pid and f.get('status') == 'open' and fnmatch.fnmatchcase(sig, f['signature']):
            return f
    return None


# ------------------------------------------------------------------------------------------- shrink
def minimise(mod, scn, sig, budget_s=90.0):
    t_end = time.time() + budget_s
    cur = scn
    tried = 0
    if not hasattr(mod, 'shrink'):
        return cur, tried
    progress = True
    while progress and time.time() < t_end:
        progress = False
        for cand in mod.shrink(cur):
            if time.time() > t_end:
                break
            tried += 1
            res = safe_execute(mod, cand)
            if res.get('harness') or not res['violations']:
                continue
            if sig in [signature(mod, cand, v) for v in res['violations']]:
                cur = cand
                progress = True
                break
    return cur, tried


def write_replay(mod, scn, sig, pv, master, index, original_seed, rerun=True):
    res = safe_execute(mod, copy.deepcopy(scn)) if rerun else {'digest': pv['clause']}
    d = REPLAY_DIR
    os.makedirs(d, exist_ok=True)
    h = hashlib.sha256(sig.encode()).hexdigest()[:10]
    path = os.path.join(d, '%s-%s-%d.json' % (mod.ID, h, index))
    json.dump({'property': mod.ID, 'master_seed': master, 'run_index': index, 'original_run_seed': original_seed,
               'signature': sig, 'clause': pv['clause'], 'message': pv['msg'], 'digest': res.get('digest'),
               'scenario': scn}, open(path, 'w'), indent=1, sort_keys=True)
    return path


def replay(mod, path):
    rec = json.load(open(path))
    scn = rec['scenario']
    res = safe_execute(mod, copy.deepcopy(scn), keep_log=True)
    if res.get('harness'):
        print('HARNESS-ERROR property=%s %s' % (mod.ID, res['harness']))
        return 2
    sigs = [signature(mod, scn, v) for v in res['violations']]
    if rec['signature'] in sigs or (res['violations'] and signature(mod, scn, primary_violation(res['violations'])) == rec['signature']):
        if rec.get('digest') and res.get('digest') != rec['digest']:
            print('HARNESS-ERROR nondeterministic-replay property=%s expected digest %s got %s' % (mod.ID, rec['digest'], res.get('digest')))
            return 2
        pv = primary_violation(res['violations'])
        print('reproduced: %s: %s' % (rec['signature'], pv['msg']))
        print('VIOLATION property=%s replay=%s' % (mod.ID, path))
        return 1
    if res['violations']:
        print('replay shows a different violation: %s' % sigs)
        print('VIOLATION property=%s replay=%s' % (mod.ID, path))
        return 1
    print('replay of %s: no violation on this tree' % path)
    return 0


# ------------------------------------------------------------------------------------------- selftest
def determinism_selftest(pid, tier, master, digests, cases_n, sample=24):
    """Re-run a sample of the same run indices in a fresh interpreter under another PYTHONHASHSEED
    and compare event-log digests."""
    idx = sorted(digests)[:: max(1, len(digests) // sample)][:sample]
    env = dict(os.environ)
    env['PYTHONHASHSEED'] = str((master % 4000) + 17)
    env['VERIF_SEED'] = str(master)
    cmd = [sys.executable, os.path.join(VERIF, 'check'), pid, '--tier', tier, '--digests', ','.join(map(str, idx))]
    try:
        p = subprocess.run(cmd, env=env, capture_output=True, text=True, timeout=600)
    except subprocess.TimeoutExpired:
        return {'ok': False, 'error': 'selftest subprocess timed out', 'sample': len(idx)}
    if p.returncode != 0:
        return {'ok': False, 'error': 'selftest subprocess failed: ' + p.stderr[-1500:], 'sample': len(idx)}
    other = json.loads(p.stdout.strip().splitlines()[-1])
    bad = [i for i in idx if other.get(str(i)) != digests[i]]
    return {'ok': not bad, 'sample': len(idx), 'mismatching_indices': bad, 'other_pythonhashseed': env['PYTHONHASHSEED']}


def print_digests(mod, tier, master, idx):
    cases = mod.enumerate_cases(tier, master) if hasattr(mod, 'enumerate_cases') else None
    real_stdout = sys.stdout
    sys.stdout = open(os.devnull, 'w')
    out = {}
    for i in idx:
        if cases is not None and i < len(cases):
            scn = copy.deepcopy(cases[i])
            scn.setdefault('seed', run_seed(master, mod.ID, i) & 0xFFFFFFFF)
            scn['prop'] = mod.ID
        else:
            scn = scenario_for(mod, master, tier, i)
        out[str(i)] = safe_execute(mod, scn).get('digest')
    sys.stdout = real_stdout
    print(json.dumps(out))
    return 0


# ------------------------------------------------------------------------------------------- explore
def explore(mod, tier, master, runs_override=None, workers=None, no_selftest=False):
    t0 = time.time()
    pid = mod.ID
    n_runs, wall_cap = mod.BUDGET[tier]
    if runs_override:
        n_runs = runs_override
    if os.environ.get('VERIF_WALL_CAP'):
        wall_cap = float(os.environ['VERIF_WALL_CAP'])
    workers = workers or int(os.environ.get('VERIF_WORKERS', os.cpu_count() or 4))
    global _CASES
    cases = mod.enumerate_cases(tier, master) if hasattr(mod, 'enumerate_cases') else None
    _CASES = cases
    n_enum = len(cases) if cases is not None else 0
    # enumerated cases come first (indices 0..n_enum-1), sampled runs after them
    total = n_enum + n_runs
    chunk = max(1, min(getattr(mod, 'CHUNK', 50), (total + workers * 4 - 1) // (workers * 4)))
    chunks = [list(range(s, min(s + chunk, total))) for s in range(0, total, chunk)]
    agg = {'n': 0, 'nontrivial': set(), 'viol': [], 'harness': [], 'stats': {}, 'samples': [], 'sim_s': 0.0,
           'digests': {}, 'cpu_s': 0.0, 'states': set(), 'known': {}}
    skipped = 0
    incomplete = False
    ctx = multiprocessing.get_context('fork')
    ex = ProcessPoolExecutor(max_workers=workers, mp_context=ctx)
    futs = {}
    try:
        for ch in chunks:
            enum_part = (cases is not None and ch[0] < n_enum)
            if enum_part and ch[-1] >= n_enum:
                # chunk straddles the boundary: split
                a = [i for i in ch if i < n_enum]
                b = [i for i in ch if i >= n_enum]
                futs[ex.submit(_work, pid, tier, master, a, True)] = a
                futs[ex.submit(_work, pid, tier, master, b, False)] = b
            else:
                futs[ex.submit(_work, pid, tier, master, ch, enum_part)] = ch
        deadline = t0 + wall_cap
        pending = set(futs)
        extensions = 0
        while True:
          try:
            for f in as_completed(list(pending), timeout=max(5.0, deadline - time.time())):
                pending.discard(f)
                try:
                    r = f.result()
                except Exception as e:
                    agg['harness'].append((futs[f][0], 'worker failed: %r' % (e,), None))
                    continue
                agg['n'] += r['n']
                agg['nontrivial'] |= r['nontrivial']
                agg['viol'] += r['viol']
                agg['harness'] += r['harness']
                agg['sim_s'] += r['sim_s']
                agg['cpu_s'] += r['wall']
                agg['digests'].update(r['digests'])
                agg['states'] |= r['states']
                for k, v in r['known'].items():
                    agg['known'][k] = agg['known'].get(k, 0) + v
                for k, v in r['stats'].items():
                    agg['stats'][k] = agg['stats'].get(k, 0) + v
                if len(agg['samples']) < 3:
                    agg['samples'] += r['samples'][:1]
                if time.time() > deadline:
                    break
            break
          except TimeoutError:
            # a heavily loaded machine: give the workers more time rather than judge (or fail) on next to nothing
            if agg['n'] < max(20, total // 50) and extensions < 3:
                extensions += 1
                deadline = time.time() + wall_cap
                continue
            break
        for f in pending:
            if not f.done():
                if f.cancel():
                    skipped += len(futs[f])
                else:
                    incomplete = True
    finally:
        if all(f.done() for f in futs):
            ex.shutdown(wait=True)
        else:
            procs = list((getattr(ex, '_processes', None) or {}).values())
            for p in procs:
                try:
                    p.kill()
                except Exception:
                    pass
            try:
                ex.shutdown(wait=False, cancel_futures=True)
            except Exception:
                pass
    explore_wall = time.time() - t0

    rc = 0
    lines = []
    findings = load_findings()
    # ---- harness errors
    if agg['harness']:
        rc = 2
        i, msg, scn = agg['harness'][0]
        p = os.path.join(REPLAY_DIR, '%s-harness-%d.json' % (pid, i))
        os.makedirs(os.path.dirname(p), exist_ok=True)
        json.dump({'property': pid, 'harness_error': msg, 'scenario': scn}, open(p, 'w'), indent=1)
        lines.append('HARNESS-ERROR property=%s runs=%d first=%s\n%s' % (pid, len(agg['harness']), p, msg))
    if agg['n'] == 0:
        rc = 2
        lines.append('HARNESS-ERROR property=%s no run completed within the wall cap' % pid)
    # ---- violations
    by_sig = {}
    for (i, sig, pv, scn, clauses) in sorted(agg['viol'], key=lambda x: x[0]):
        by_sig.setdefault(sig, []).append((i, pv, scn, clauses))
    known_hits = {}
    for fsig, cnt in agg['known'].items():
        f = next(x for x in findings if x['signature'] == fsig and x.get('status') == 'open' and x.get('property') == pid)
        known_hits[fsig] = [f, cnt]
    new = []
    minimised = 0
    for sig, items in sorted(by_sig.items()):
        f = match_open_finding(findings, pid, sig)
        if f is not None:
            known_hits.setdefault(f['signature'], [f, 0])[1] += len(items)
            continue
        i, pv, scn, clauses = next((it for it in items if it[1] is not None), items[0])
        if pv is None:
            new.append((sig, None, len(items), None, i))
            continue
        slow = pv['clause'] in ('hang', 'runaway')      # every execution of such a scenario costs 20 - 60 s of wall time: reported as found
        if minimised < 5 and not slow:
            small, tried = minimise(mod, scn, sig, budget_s=60.0 if tier == 'quick' else 180.0)
            minimised += 1
        else:
            small, tried = scn, 0
        if slow:
            path = write_replay(mod, small, sig, pv, master, i, scn.get('seed'), rerun=False)
            new.append((sig, pv, len(items), path, i))
            continue
        res = safe_execute(mod, copy.deepcopy(small))
        same = [v for v in (res.get('violations') or []) if signature(mod, small, v) == sig]
        pv2 = same[0] if same else pv
        sig2 = signature(mod, small, pv2)
        f = match_open_finding(findings, pid, sig2)
        if f is not None:
            known_hits.setdefault(f['signature'], [f, 0])[1] += len(items)
            continue
        path = write_replay(mod, small, sig2, pv2, master, i, scn.get('seed'))
        new.append((sig2, pv2, len(items), path, i))
    for fsig, (f, cnt) in sorted(known_hits.items()):
        lines.append('KNOWN-FINDING: property=%s %s (%d runs; %s)' % (pid, f.get('what', ''), cnt, fsig))
    for sig, pv, cnt, path, i in new:
        lines.append('violation %s runs=%d first_index=%d: %s' % (sig, cnt, i, pv['msg'] if pv else ''))
        lines.append('VIOLATION property=%s replay=%s' % (pid, path))
        rc = max(rc, 1) if rc != 2 else 2
    # ---- determinism self-test
    st = None
    if not no_selftest and agg['digests'] and rc != 2:
        st = determinism_selftest(pid, tier, master, agg['digests'], n_enum, sample=24 if tier == 'quick' else 200)
        if not st['ok']:
            rc = 2
            lines.append('HARNESS-ERROR property=%s determinism self-test failed: %s' % (pid, json.dumps(st)))
    wall = time.time() - t0
    # ---- evidence
    cov = {
        'evaluations': agg['n'],
        'distinct_nontrivial': len(agg['nontrivial']),
        'rule': mod.RULE,
        'samples': agg['samples'] or [{'note': 'no violation-free non-trivial sample recorded'}],
        'enumerated_cases': n_enum,
        'sampled_runs': max(0, agg['n'] - n_enum),
        'exhaustive': False,
        'runs_skipped_by_wall_cap': skipped,
        'incomplete_chunks': incomplete,
        'simulated_seconds': round(agg['sim_s'], 3),
        'runs_per_hour': int(agg['n'] / max(explore_wall, 1e-6) * 3600),
        'seeds_per_hour': int(agg['n'] / max(explore_wall, 1e-6) * 3600),
        'cpu_seconds_in_runs': round(agg['cpu_s'], 2),
        'workers': workers,
        'counters': {k: (round(v, 3) if isinstance(v, float) else v) for k, v in sorted(agg['stats'].items())},
        'fault_kinds_fired': dict({lab: agg['stats'].get(key, 0) for lab, key in getattr(mod, 'FAULT_COUNTERS', {}).items()},
                                  **{'scheduling jitter: per-wake latency in [1 us, Lmax], clock read cost, bus latency policy (every run)': agg['n']}),
        'distinct_abstract_states': len(agg['states']),
        'distinct_executions': len(set(agg['digests'].values())),
        'measure_of_distinctness': 'distinct_executions = number of different SHA-256 digests of the complete event log (thread switches, every frame sent and delivered, every callback); distinct_abstract_states = per-stack multiset of (table, session state, remaining-packets bucket) sampled during the run, where the check samples it',
        'violating_runs': len(agg['viol']),
        'violation_signatures': sorted(by_sig),
        'known_finding_runs': {k: v[1] for k, v in known_hits.items()},
        'determinism_selftest': st,
        'components': {'real': 'every module under %s/j1939 (ElectronicControlUnit, J1939_21/22, ControllerApplication, Dm1/Dm22, MemoryAccess, Dm14Query, DM14Server, MessageListener, _async_job_thread in a real parked OS thread)' % REPO,
                       'stub': 'bus (SimBus), clock (virtual), Queue blocking (SimQueue, bounded, with the eager-wake schedule fault), Lock (SimLock), thread creation/scheduling (baton; job threads and application calls can be parked at a source line via sys.settrace), secrets, reference peers, application threads and callbacks'},
    }
    stuck = [p for p in getattr(mod, 'REQUIRED_PROBES', []) if not agg['stats'].get(p)]
    if stuck:
        cov['probe_warnings'] = ['probe %s stuck at zero' % p for p in stuck]
    ev = {'property_id': pid, 'tier': tier, 'seed': master, 'level': mod.LEVEL, 'coverage': cov,
          'assumptions': ASSUMPTIONS + list(getattr(mod, 'ASSUMPTIONS', [])), 'wall_s': round(wall, 2),
          'violations': len(new)}
    os.makedirs(EVIDENCE_DIR, exist_ok=True)
    json.dump(ev, open(os.path.join(EVIDENCE_DIR, pid + '.json'), 'w'), indent=1, sort_keys=True, default=str)
    for l in lines:
        print(l)
    print('%s tier=%s seed=%d runs=%d nontrivial=%d violations=%d known=%d wall=%.1fs rc=%d' % (
        pid, tier, master, agg['n'], len(agg['nontrivial']), len(new), sum(v[1] for v in known_hits.values()), wall, rc))
    return rc


def main(argv):
    import argparse
    ap = argparse.ArgumentParser()
    ap.add_argument('prop')
    ap.add_argument('--tier', default=os.environ.get('VERIF_TIER', 'quick'), choices=['quick', 'thorough'])
    ap.add_argument('--replay')
    ap.add_argument('--digests')
    ap.add_argument('--runs', type=int)
    ap.add_argument('--workers', type=int)
    ap.add_argument('--no-selftest', action='store_true')
    ap.add_argument('--one', type=int, help='run one index verbosely')
    a = ap.parse_args(argv)
    try:
        master = int(os.environ.get('VERIF_SEED', DEFAULT_SEED))
    except ValueError:
        master = DEFAULT_SEED
    mod = load(a.prop.upper())
    if a.replay:
        return replay(mod, a.replay)
    if a.digests:
        return print_digests(mod, a.tier, master, [int(x) for x in a.digests.split(',') if x])
    if a.one is not None:
        cases = mod.enumerate_cases(a.tier, master) if hasattr(mod, 'enumerate_cases') else None
        if cases is not None and a.one < len(cases):
            scn = copy.deepcopy(cases[a.one])
            scn.setdefault('seed', run_seed(master, mod.ID, a.one) & 0xFFFFFFFF)
            scn['prop'] = mod.ID
        else:
            scn = scenario_for(mod, master, a.tier, a.one)
        print(json.dumps(scn, sort_keys=True))
        res = safe_execute(mod, scn)
        print(json.dumps({k: v for k, v in res.items() if k != 'states'}, indent=1, default=str))
        return 0
    return explore(mod, a.tier, master, a.runs, a.workers, a.no_selftest)
