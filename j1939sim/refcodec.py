"""Independent reference codec for SAE J1939-21 / J1939-22 / J1939-73 / J1939-81 frame layouts.
Imports nothing from the library under test."""

PF_TP_CM, PF_TP_DT = 0xEC, 0xEB
PF_FD_TP_CM, PF_FD_TP_DT = 0x4D, 0x4E
PF_MULTI_PG = 0x25
PF_REQUEST, PF_ADDRESS_CLAIM, PF_ACK = 0xEA, 0xEE, 0xE8
GLOBAL, NULL = 255, 254
FD_LENGTHS = (0, 1, 2, 3, 4, 5, 6, 7, 8, 12, 16, 20, 24, 32, 48, 64)

# J1939-21 TP.CM control bytes
RTS, CTS, EOMA, BAM, ABORT = 16, 17, 19, 32, 255
# J1939-22 FD.TP.CM control nibbles
FD_RTS, FD_CTS, FD_EOMS, FD_EOMA, FD_BAM, FD_ABORT = 0, 1, 2, 3, 4, 15


class Id:
    __slots__ = ('prio', 'edp', 'dp', 'pf', 'ps', 'sa')

    def __init__(self, can_id):
        self.prio = (can_id >> 26) & 7
        self.edp = (can_id >> 25) & 1
        self.dp = (can_id >> 24) & 1
        self.pf = (can_id >> 16) & 0xFF
        self.ps = (can_id >> 8) & 0xFF
        self.sa = can_id & 0xFF

    @property
    def pdu1(self):
        return self.pf < 240

    @property
    def da(self):
        return self.ps if self.pf < 240 else GLOBAL

    @property
    def pgn(self):
        """SAE PGN: (EDP, DP, PF, PS if PDU2 else 0)."""
        return (self.edp << 17) | (self.dp << 16) | (self.pf << 8) | (self.ps if self.pf >= 240 else 0)

    def __repr__(self):
        return 'Id(p%d dp%d pf%02X ps%02X sa%02X)' % (self.prio, self.dp, self.pf, self.ps, self.sa)


def make_id(prio, dp, pf, ps, sa, edp=0):
    return ((prio & 7) << 26) | ((edp & 1) << 25) | ((dp & 1) << 24) | ((pf & 0xFF) << 16) | ((ps & 0xFF) << 8) | (sa & 0xFF)


def sae_pgn(dp, pf, ps):
    return ((dp & 1) << 16) | ((pf & 0xFF) << 8) | ((ps & 0xFF) if pf >= 240 else 0)


def pgn3(pgn):
    return [pgn & 0xFF, (pgn >> 8) & 0xFF, (pgn >> 16) & 0xFF]


def le24(b, i):
    return b[i] | (b[i + 1] << 8) | (b[i + 2] << 16)


def b24(v):
    return [v & 0xFF, (v >> 8) & 0xFF, (v >> 16) & 0xFF]


# ----------------------------------------------------------------------------- J1939-21
def tp_rts(size, npk, maxpk, pgn):
    return [RTS, size & 0xFF, size >> 8, npk, maxpk] + pgn3(pgn)


def tp_cts(num, nxt, pgn):
    return [CTS, num, nxt, 0xFF, 0xFF] + pgn3(pgn)


def tp_eoma(size, npk, pgn):
    return [EOMA, size & 0xFF, size >> 8, npk, 0xFF] + pgn3(pgn)


def tp_bam(size, npk, pgn):
    return [BAM, size & 0xFF, size >> 8, npk, 0xFF] + pgn3(pgn)


def tp_abort(reason, pgn):
    return [ABORT, reason, 0xFF, 0xFF, 0xFF] + pgn3(pgn)


def tp_dt(seq, chunk):
    return [seq] + list(chunk) + [0xFF] * (7 - len(chunk))


def npackets21(size):
    return (size + 6) // 7


# ----------------------------------------------------------------------------- J1939-22
def fd_cm(ctrl, session, f24a, f24b, b7, b8, pgn):
    return [(ctrl & 0xF) | ((session & 0xF) << 4)] + b24(f24a) + b24(f24b) + [b7 & 0xFF, b8 & 0xFF] + pgn3(pgn)


def fd_rts(session, size, nseg, maxseg, pgn):
    return fd_cm(FD_RTS, session, size, nseg, maxseg, 0, pgn)


def fd_cts(session, nxt, num, pgn):
    return fd_cm(FD_CTS, session, 0xFFFFFF, nxt, num, 0, pgn)


def fd_eoms(session, size, nseg, pgn):
    return fd_cm(FD_EOMS, session, size, nseg, 0, 0, pgn)


def fd_eoma(session, size, nseg, pgn):
    return fd_cm(FD_EOMA, session, size, nseg, 0xFF, 0xFF, pgn)


def fd_bam(session, size, nseg, pgn):
    return fd_cm(FD_BAM, session, size, nseg, 0xFF, 0, pgn)


def fd_abort(session, reason, pgn):
    return fd_cm(FD_ABORT, session, 0xFFFFFF, 0xFFFFFF, 0xFF, reason, pgn)


def fd_len(n):
    for l in FD_LENGTHS:
        if l >= n:
            return l
    raise ValueError(n)


def fd_dt(session, segno, chunk):
    d = [(session & 0xF) << 4] + b24(segno) + list(chunk)
    return d + [0xFF] * (fd_len(len(d)) - len(d))


def nsegments22(size):
    return (size + 59) // 60


class FdCm:
    __slots__ = ('ctrl', 'session', 'a', 'b', 'b7', 'b8', 'pgn')

    def __init__(self, data):
        self.ctrl = data[0] & 0xF
        self.session = data[0] >> 4
        self.a = le24(data, 1)
        self.b = le24(data, 4)
        self.b7 = data[7]
        self.b8 = data[8]
        self.pgn = le24(data, 9)


# ----------------------------------------------------------------------------- multi-PG
def mpg_decode(data):
    """Decode the contained parameter groups of a multi-PG frame: [(tos, tf, cpgn, payload bytes)].
    Stops at the padding service header (TOS 0).  Raises ValueError on a malformed frame."""
    out = []
    i = 0
    n = len(data)
    while n - i >= 4 or (n - i > 0 and (data[i] >> 5) != 0):
        if n - i < 4:
            # fewer than 4 bytes left: must be padding (TOS 0)
            raise ValueError('truncated C-PG header at %d' % i)
        tos = data[i] >> 5
        if tos == 0:
            break
        tf = (data[i] >> 2) & 7
        cpgn = ((data[i] & 3) << 16) | (data[i + 1] << 8) | data[i + 2]
        ln = data[i + 3]
        if i + 4 + ln > n:
            raise ValueError('C-PG payload overruns frame')
        out.append((tos, tf, cpgn, bytes(data[i + 4:i + 4 + ln])))
        i += 4 + ln
    # everything after a padding header: 0x00 header bytes then 0xAA
    rest = bytes(data[i:])
    return out, rest


def mpg_encode(groups):
    """groups: [(cpgn, payload)] -> frame payload padded per J1939-22 (TOS 2, TF 0)."""
    d = []
    for cpgn, payload in groups:
        d += [(2 << 5) | ((cpgn >> 16) & 3), (cpgn >> 8) & 0xFF, cpgn & 0xFF, len(payload)] + list(payload)
    L = fd_len(len(d)) if len(d) <= 64 else len(d)
    pad = 0
    while len(d) < L:
        d.append(0 if pad < 3 else 0xAA)
        pad += 1
    return d


# ----------------------------------------------------------------------------- J1939-73 DTC / lamps
def dtc_encode(spn, fmi, oc, cm=0):
    """4 bytes: SPN low 8, SPN mid 8, [SPN high 3 | FMI 5], [CM 1 | OC 7]."""
    return [spn & 0xFF, (spn >> 8) & 0xFF, (((spn >> 16) & 7) << 5) | (fmi & 0x1F), ((cm & 1) << 7) | (oc & 0x7F)]


def dtc_decode(b):
    spn = b[0] | (b[1] << 8) | ((b[2] >> 5) << 16)
    return spn, b[2] & 0x1F, b[3] & 0x7F, b[3] >> 7


# lamp order in byte 1 (LSB first): protect, amber warning, red stop, MIL; byte 2 = flash codes
LAMPS = ('pl', 'awl', 'rsl', 'mil')
# status -> (lamp bits, flash bits): 0 off, 1 on steady, 2 on slow flash, 3 on fast flash, 4 n/a
LAMP_BITS = {0: (0, 3), 1: (1, 3), 2: (1, 0), 3: (1, 1), 4: (3, 3)}


def lamps_encode(status):
    b0 = b1 = 0
    for i, k in enumerate(LAMPS):
        l, f = LAMP_BITS[status[k]]
        b0 |= l << (2 * i)
        b1 |= f << (2 * i)
    return [b0, b1]


# ----------------------------------------------------------------------------- J1939-81 NAME
def name_value(b):
    return int.from_bytes(bytes(b), 'little')
