"""Reference peer: a conforming J1939-21 / J1939-22 node written from the SAE layouts (refcodec), with
seeded free choices inside the standard's envelope.  Runs in the scheduler context, timers via sim.after.
Imports nothing from the library under test."""
import random

from . import refcodec as rc

MS = 1_000_000


class RefPeer:
    def __init__(self, sim, bus, name, addr, fd=False, seed=0, policy=None):
        self.sim = sim
        self.bus = bus
        self.name = name
        self.addr = addr
        self.fd = fd
        self.rng = random.Random(seed ^ 0x9E3779B1)
        p = {'reply_ms': (0, 5), 'holds': (0, 0), 'hold_gap_ms': (10, 400), 'window': None, 'rts_limit': 255,
             'dt_gap_ms': (0, 2), 'bam_gap_ms': (50, 60) if not fd else (10, 20), 'stop_after_tx': None,
             'abort_at_rx': None, 'ack': True, 'silent_after_holds': False}
        p.update(policy or {})
        self.p = p
        self.port = bus.port(name)
        self.port.deliver = self.on_frame
        self.rx = {}            # (sa, da, session) -> receive session
        self.tx = {}            # (da, session) -> send session
        self.received = []      # dicts: pgn, sa, da, data, t, prio
        self.sent_done = []     # dicts: da, pgn, ok, reason
        self.protocol_errors = []   # what a conforming decoder could not accept from its peer
        self.tx_count = 0
        self.rx_tp_count = 0
        self.stats = {'holds_sent': 0, 'cts_sent': 0, 'windows': []}
        self.next_session = 0
        self.singles = []       # non-transport frames addressed to us / global: (Id, data)

    # ------------------------------------------------------------------ helpers
    def _reply(self, fn, tag='peer'):
        """Answer after the policy's reply latency; with 'sync_reply' a latency of exactly 0 means: inside the handler of the frame that
        caused it (a node whose answer is on the bus before the other side's send call has returned, given a zero-latency bus)."""
        d = self._ms('reply_ms')
        if d == 0 and self.p.get('sync_reply'):
            fn()
        else:
            self.sim.after(d, fn, tag)

    def _ms(self, key):
        lo, hi = self.p[key]
        return self.rng.randint(int(lo * 1000), int(hi * 1000)) * 1000   # ns, us resolution

    def send(self, prio, dp, pf, ps, data, fd=None):
        if self.p['stop_after_tx'] is not None and self.tx_count >= self.p['stop_after_tx']:
            return False
        self.tx_count += 1
        self.bus.send(self.name, rc.make_id(prio, dp, pf, ps, self.addr), True, bytes(bytearray(data)), self.fd if fd is None else fd)
        return True

    def _window(self, top):
        w = self.p['window']
        if w is None:
            return self.rng.randint(1, top)
        if isinstance(w, list):
            w = w.pop(0) if w else top
        return max(1, min(w, top))

    def err(self, msg):
        self.protocol_errors.append('%.6f %s' % (self.sim.now / 1e9, msg))

    # ------------------------------------------------------------------ reception
    def on_frame(self, fr):
        if not fr.ext or fr.remote or fr.error:
            return
        i = rc.Id(fr.can_id)
        if i.pdu1 and i.ps not in (self.addr, 255):
            return
        d = fr.data
        if not self.fd:
            if i.pf == rc.PF_TP_CM:
                self.rx_tp_count += 1
                return self._cm21(i, d)
            if i.pf == rc.PF_TP_DT:
                self.rx_tp_count += 1
                return self._dt21(i, d)
        else:
            if i.pf == rc.PF_FD_TP_CM:
                self.rx_tp_count += 1
                return self._cm22(i, d)
            if i.pf == rc.PF_FD_TP_DT:
                self.rx_tp_count += 1
                return self._dt22(i, d)
            if i.pf == rc.PF_MULTI_PG:
                try:
                    groups, rest = rc.mpg_decode(d)
                except ValueError as e:
                    return self.err('multi-PG: %s' % e)
                for (tos, tf, cpgn, pl) in groups:
                    self.received.append({'pgn': cpgn, 'sa': i.sa, 'da': i.ps, 'data': pl, 't': self.sim.now, 'prio': i.prio, 'via': 'mpg'})
                return
        self.singles.append((i, d))
        self.received.append({'pgn': i.pgn, 'sa': i.sa, 'da': i.da, 'data': bytes(d), 't': self.sim.now, 'prio': i.prio, 'via': 'single'})

    def _maybe_abort_at(self):
        a = self.p['abort_at_rx']
        return a is not None and self.rx_tp_count == a

    # ------------------------------------------------------------------ J1939-21
    def _cm21(self, i, d):
        if len(d) != 8:
            return self.err('TP.CM with %d bytes' % len(d))
        ctrl = d[0]
        pgn = rc.le24(d, 5)
        if ctrl == rc.RTS and i.ps == self.addr:
            size, npk, lim = d[1] | (d[2] << 8), d[3], d[4]
            if npk != rc.npackets21(size):
                self.err('RTS packet count %d for %d bytes' % (npk, size))
            s = {'size': size, 'npk': npk, 'lim': lim if lim else 255, 'pgn': pgn, 'next': 1, 'data': bytearray(), 'sa': i.sa,
                 'da': i.ps, 'win_end': 0, 'prio': i.prio, 'holds': self.rng.randint(*self.p['holds'])}
            self.rx[(i.sa, i.ps, 0)] = s
            if self._maybe_abort_at():
                return self._abort21(i.sa, pgn, s)
            self._reply(lambda: self._cts21(s), 'peer')
        elif ctrl == rc.BAM and i.ps == 255:
            size, npk = d[1] | (d[2] << 8), d[3]
            if npk != rc.npackets21(size):
                self.err('BAM packet count %d for %d bytes' % (npk, size))
            if d[4] != 0xFF:
                self.err('BAM byte 5 is %02X' % d[4])
            self.rx[(i.sa, 255, 0)] = {'size': size, 'npk': npk, 'pgn': pgn, 'next': 1, 'data': bytearray(), 'sa': i.sa, 'da': 255,
                                       'win_end': npk, 'prio': i.prio, 'last': self.sim.now, 'gaps': []}
        elif ctrl == rc.CTS and i.ps == self.addr:
            s = self.tx.get((i.sa, 0))
            if s is None:
                return
            n, nxt = d[1], d[2]
            if d[3] != 0xFF or d[4] != 0xFF:
                self.err('CTS reserved bytes %02X %02X' % (d[3], d[4]))
            if pgn != s['pgn']:
                self.err('CTS pgn %06X for %06X' % (pgn, s['pgn']))
            s['cts_seen'].append((n, nxt))
            if n == 0:
                return
            if nxt != s['next']:
                self.err('CTS asks for packet %d, next unsent is %d' % (nxt, s['next']))
            if n > s['lim']:
                self.err('CTS grants %d > RTS limit %d' % (n, s['lim']))
            if nxt + n - 1 > s['npk']:
                self.err('CTS grants %d from %d beyond %d packets' % (n, nxt, s['npk']))
            s['grant_end'] = min(s['npk'], nxt + n - 1)
            s['next'] = nxt
            self._reply(lambda: self._send_dt21(s), 'peer')
        elif ctrl == rc.EOMA and i.ps == self.addr:
            s = self.tx.pop((i.sa, 0), None)
            if s is None:
                return
            size, npk = d[1] | (d[2] << 8), d[3]
            if size != s['size'] or npk != s['npk'] or pgn != s['pgn'] or d[4] != 0xFF:
                self.err('EndOfMsgACK fields %s for size %d npk %d pgn %06X' % (bytes(d).hex(), s['size'], s['npk'], s['pgn']))
            if s['next'] <= s['npk']:
                self.err('EndOfMsgACK before all packets were sent')
            self.sent_done.append({'da': i.sa, 'pgn': s['pgn'], 'ok': True, 'cts': s['cts_seen']})
        elif ctrl == rc.ABORT and i.ps == self.addr:
            s = self.tx.pop((i.sa, 0), None)
            if s is not None:
                self.sent_done.append({'da': i.sa, 'pgn': s['pgn'], 'ok': False, 'reason': d[1]})
            self.rx.pop((i.sa, i.ps, 0), None)

    def _abort21(self, da, pgn, s=None):
        self.rx.pop((da, self.addr, 0), None)
        self.send(7, 0, rc.PF_TP_CM, da, rc.tp_abort(1, pgn))

    def _cts21(self, s):
        if self.rx.get((s['sa'], s['da'], 0)) is not s:
            return
        if s['holds'] > 0:
            s['holds'] -= 1
            self.stats['holds_sent'] += 1
            self.send(7, 0, rc.PF_TP_CM, s['sa'], rc.tp_cts(0, 0xFF, s['pgn']))
            if self.p['silent_after_holds'] and s['holds'] == 0:
                return          # the responder dies while holding the connection
            self.sim.after(self._ms('hold_gap_ms'), lambda: self._cts21(s), 'peer')
            return
        remaining = s['npk'] - s['next'] + 1
        top = min(s['lim'], remaining)
        n = self._window(top)
        s['win_end'] = s['next'] + n - 1
        self.stats['cts_sent'] += 1
        self.stats['windows'].append(n)
        self.send(7, 0, rc.PF_TP_CM, s['sa'], rc.tp_cts(n, s['next'], s['pgn']))

    def _dt21(self, i, d):
        s = self.rx.get((i.sa, i.ps, 0))
        if s is None:
            return
        if len(d) != 8:
            return self.err('TP.DT with %d bytes' % len(d))
        if self._maybe_abort_at() and i.ps != 255:
            return self._abort21(i.sa, s['pgn'], s)
        seq = d[0]
        if seq != s['next']:
            return self.err('TP.DT sequence %d, expected %d' % (seq, s['next']))
        if i.ps != 255 and seq > s['win_end']:
            self.err('TP.DT %d beyond the granted window end %d' % (seq, s['win_end']))
        if 'gaps' in s:
            s['gaps'].append(self.sim.now - s['last'])
            s['last'] = self.sim.now
        s['data'] += d[1:]
        s['next'] += 1
        if s['next'] > s['npk']:
            pad = s['data'][s['size']:]
            if any(b != 0xFF for b in pad):
                self.err('TP.DT padding %s' % bytes(pad).hex())
            del self.rx[(i.sa, i.ps, 0)]
            self.received.append({'pgn': s['pgn'], 'sa': i.sa, 'da': i.ps, 'data': bytes(s['data'][:s['size']]), 't': self.sim.now,
                                  'prio': s['prio'], 'via': 'bam' if i.ps == 255 else 'cmdt', 'gaps': s.get('gaps')})
            if i.ps != 255 and self.p['ack']:
                self._reply(lambda: self.send(7, 0, rc.PF_TP_CM, i.sa, rc.tp_eoma(s['size'], s['npk'], s['pgn'])), 'peer')
        elif i.ps != 255 and seq == s['win_end']:
            s['holds'] = self.rng.randint(*self.p['holds'])
            self._reply(lambda: self._cts21(s), 'peer')

    def _send_dt21(self, s):
        if self.tx.get((s['da'], 0)) is not s:
            return
        if s['next'] > s['grant_end']:
            return
        k = s['next']
        s['next'] += 1
        if not self.send(7, 0, rc.PF_TP_DT, s['da'], rc.tp_dt(k, s['data'][(k - 1) * 7:k * 7])):
            return
        if s['da'] == 255:
            if s['next'] > s['npk']:
                del self.tx[(255, 0)]
                self.sent_done.append({'da': 255, 'pgn': s['pgn'], 'ok': True})
            else:
                self.sim.after(self._ms('bam_gap_ms'), lambda: self._send_dt21(s), 'peer')
        elif s['next'] <= s['grant_end']:
            self.sim.after(self._ms('dt_gap_ms'), lambda: self._send_dt21(s), 'peer')

    # ------------------------------------------------------------------ J1939-22
    def _cm22(self, i, d):
        if len(d) < 12:
            return self.err('FD.TP.CM with %d bytes' % len(d))
        if len(d) not in rc.FD_LENGTHS:
            self.err('illegal FD length %d' % len(d))
        cm = rc.FdCm(d)
        if cm.ctrl == rc.FD_RTS and i.ps == self.addr:
            if cm.b != rc.nsegments22(cm.a):
                self.err('RTS segment count %d for %d bytes' % (cm.b, cm.a))
            s = {'size': cm.a, 'npk': cm.b, 'lim': cm.b7 if cm.b7 else 255, 'pgn': cm.pgn, 'next': 1, 'data': bytearray(), 'sa': i.sa,
                 'da': i.ps, 'win_end': 0, 'prio': i.prio, 'session': cm.session, 'holds': self.rng.randint(*self.p['holds'])}
            self.rx[(i.sa, i.ps, cm.session)] = s
            if self._maybe_abort_at():
                return self._abort22(s)
            self._reply(lambda: self._cts22(s), 'peer')
        elif cm.ctrl == rc.FD_BAM and i.ps == 255:
            if cm.b != rc.nsegments22(cm.a):
                self.err('BAM segment count %d for %d bytes' % (cm.b, cm.a))
            self.rx[(i.sa, 255, cm.session)] = {'size': cm.a, 'npk': cm.b, 'pgn': cm.pgn, 'next': 1, 'data': bytearray(), 'sa': i.sa,
                                                'da': 255, 'win_end': cm.b, 'prio': i.prio, 'session': cm.session,
                                                'last': self.sim.now, 'gaps': []}
        elif cm.ctrl == rc.FD_CTS and i.ps == self.addr:
            s = self.tx.get((i.sa, cm.session))
            if s is None:
                return
            n, nxt = cm.b7, cm.b
            if cm.pgn != s['pgn']:
                self.err('CTS pgn %06X for %06X' % (cm.pgn, s['pgn']))
            s['cts_seen'].append((n, nxt))
            if n == 0:
                return
            if nxt != s['next']:
                self.err('CTS asks for segment %d, next unsent is %d' % (nxt, s['next']))
            if n > s['lim']:
                self.err('CTS grants %d > RTS limit %d' % (n, s['lim']))
            if nxt + n - 1 > s['npk']:
                self.err('CTS grants %d from %d beyond %d segments' % (n, nxt, s['npk']))
            s['grant_end'] = min(s['npk'], nxt + n - 1)
            s['next'] = nxt
            self._reply(lambda: self._send_dt22(s), 'peer')
        elif cm.ctrl == rc.FD_EOMS:
            s = self.rx.pop((i.sa, i.ps, cm.session), None)
            if s is None:
                return
            if cm.a != s['size'] or cm.b != s['npk'] or cm.pgn != s['pgn']:
                self.err('EOMS fields size %d segs %d pgn %06X for %d/%d/%06X' % (cm.a, cm.b, cm.pgn, s['size'], s['npk'], s['pgn']))
            if s['next'] <= s['npk']:
                self.err('EOMS after %d of %d segments' % (s['next'] - 1, s['npk']))
                return
            self.received.append({'pgn': s['pgn'], 'sa': i.sa, 'da': i.ps, 'data': bytes(s['data'][:s['size']]), 't': self.sim.now,
                                  'prio': s['prio'], 'via': 'bam' if i.ps == 255 else 'cmdt', 'gaps': s.get('gaps'), 'session': cm.session})
            if i.ps != 255 and self.p['ack']:
                self._reply(lambda: self.send(7, 0, rc.PF_FD_TP_CM, i.sa,
                                                                         rc.fd_eoma(cm.session, s['size'], s['npk'], s['pgn'])), 'peer')
        elif cm.ctrl == rc.FD_EOMA and i.ps == self.addr:
            s = self.tx.pop((i.sa, cm.session), None)
            if s is None:
                return
            if cm.a != s['size'] or cm.b != s['npk'] or cm.pgn != s['pgn']:
                self.err('EOMA fields size %d segs %d pgn %06X for %d/%d/%06X' % (cm.a, cm.b, cm.pgn, s['size'], s['npk'], s['pgn']))
            if not s.get('eoms_sent'):
                self.err('EOMA before EOMS')
            self.sent_done.append({'da': i.sa, 'pgn': s['pgn'], 'ok': True, 'cts': s['cts_seen']})
        elif cm.ctrl == rc.FD_ABORT and i.ps == self.addr:
            s = self.tx.pop((i.sa, cm.session), None)
            if s is not None:
                self.sent_done.append({'da': i.sa, 'pgn': s['pgn'], 'ok': False, 'reason': cm.b8})
            self.rx.pop((i.sa, i.ps, cm.session), None)

    def _abort22(self, s):
        self.rx.pop((s['sa'], s['da'], s['session']), None)
        self.send(7, 0, rc.PF_FD_TP_CM, s['sa'], rc.fd_abort(s['session'], 1, s['pgn']))

    def _cts22(self, s):
        if self.rx.get((s['sa'], s['da'], s['session'])) is not s:
            return
        if s['holds'] > 0:
            s['holds'] -= 1
            self.stats['holds_sent'] += 1
            self.send(7, 0, rc.PF_FD_TP_CM, s['sa'], rc.fd_cts(s['session'], s['next'], 0, s['pgn']))
            if self.p['silent_after_holds'] and s['holds'] == 0:
                return          # the responder dies while holding the connection
            self.sim.after(self._ms('hold_gap_ms'), lambda: self._cts22(s), 'peer')
            return
        remaining = s['npk'] - s['next'] + 1
        top = min(s['lim'], remaining)
        n = self._window(top)
        s['win_end'] = s['next'] + n - 1
        self.stats['cts_sent'] += 1
        self.stats['windows'].append(n)
        self.send(7, 0, rc.PF_FD_TP_CM, s['sa'], rc.fd_cts(s['session'], s['next'], n, s['pgn']))

    def _dt22(self, i, d):
        if len(d) < 5:
            return self.err('FD.TP.DT with %d bytes' % len(d))
        if len(d) not in rc.FD_LENGTHS:
            self.err('illegal FD length %d' % len(d))
        session = d[0] >> 4
        if d[0] & 0xF:
            self.err('FD.TP.DT format indicator %d' % (d[0] & 0xF))
        s = self.rx.get((i.sa, i.ps, session))
        if s is None:
            return
        if self._maybe_abort_at() and i.ps != 255:
            return self._abort22(s)
        seg = rc.le24(d, 1)
        if seg != s['next']:
            return self.err('FD.TP.DT segment %d, expected %d' % (seg, s['next']))
        if i.ps != 255 and seg > s['win_end']:
            self.err('FD.TP.DT %d beyond the granted window end %d' % (seg, s['win_end']))
        if 'gaps' in s:
            s['gaps'].append(self.sim.now - s['last'])
            s['last'] = self.sim.now
        want = 60 if seg < s['npk'] else s['size'] - 60 * (s['npk'] - 1)
        if len(d) < 4 + want:
            return self.err('FD.TP.DT %d carries %d of %d bytes' % (seg, len(d) - 4, want))
        if len(d) != rc.fd_len(4 + want):
            self.err('FD.TP.DT %d length %d, expected %d' % (seg, len(d), rc.fd_len(4 + want)))
        if any(b != 0xFF for b in d[4 + want:]):
            self.err('FD.TP.DT padding %s' % bytes(d[4 + want:]).hex())
        s['data'] += d[4:4 + want]
        s['next'] += 1
        if s['next'] > s['npk']:
            return          # wait for EOMS
        if i.ps != 255 and seg == s['win_end']:
            s['holds'] = self.rng.randint(*self.p['holds'])
            self._reply(lambda: self._cts22(s), 'peer')

    def _send_dt22(self, s):
        if self.tx.get((s['da'], s['session'])) is not s:
            return
        if s['next'] > s['grant_end']:
            return
        k = s['next']
        s['next'] += 1
        if not self.send(7, 0, rc.PF_FD_TP_DT, s['da'], rc.fd_dt(s['session'], k, s['data'][(k - 1) * 60:k * 60])):
            return
        last = s['next'] > s['npk']
        if last:
            gap = self._ms('bam_gap_ms') if s['da'] == 255 else self._ms('dt_gap_ms')

            def eoms():
                if self.tx.get((s['da'], s['session'])) is not s:
                    return
                s['eoms_sent'] = True
                self.send(7, 0, rc.PF_FD_TP_CM, s['da'], rc.fd_eoms(s['session'], s['size'], s['npk'], s['pgn']))
                if s['da'] == 255:
                    del self.tx[(255, s['session'])]
                    self.sent_done.append({'da': 255, 'pgn': s['pgn'], 'ok': True})
            self.sim.after(gap, eoms, 'peer')
        elif s['da'] == 255:
            self.sim.after(self._ms('bam_gap_ms'), lambda: self._send_dt22(s), 'peer')
        elif s['next'] <= s['grant_end']:
            self.sim.after(self._ms('dt_gap_ms'), lambda: self._send_dt22(s), 'peer')

    # ------------------------------------------------------------------ origination
    def send_message(self, da, dp, pf, ps, data, prio=6):
        """Originate a message (single frame / multi-PG when it fits, else BAM to 255 or RTS/CTS)."""
        data = bytes(bytearray(data))
        pgn = rc.sae_pgn(dp, pf, ps)
        if not self.fd and len(data) <= 8:
            return self.send(prio, dp, pf, ps, data)
        if self.fd and len(data) <= 60:
            cpgn = pgn
            return self.send(prio, 0, rc.PF_MULTI_PG, da, rc.mpg_encode([(cpgn, data)]))
        if self.fd:
            sess = self.next_session
            self.next_session = (self.next_session + 1) % (4 if da == 255 else 8)
            npk = rc.nsegments22(len(data))
            s = {'size': len(data), 'npk': npk, 'pgn': pgn, 'da': da, 'data': data, 'next': 1, 'grant_end': npk if da == 255 else 0,
                 'lim': min(self.p['rts_limit'], 255), 'session': sess, 'cts_seen': []}
            self.tx[(da, sess)] = s
            if da == 255:
                self.send(prio, 0, rc.PF_FD_TP_CM, 255, rc.fd_bam(sess, len(data), npk, pgn))
                self.sim.after(self._ms('bam_gap_ms'), lambda: self._send_dt22(s), 'peer')
            else:
                self.send(prio, 0, rc.PF_FD_TP_CM, da, rc.fd_rts(sess, len(data), npk, s['lim'], pgn))
            return True
        npk = rc.npackets21(len(data))
        s = {'size': len(data), 'npk': npk, 'pgn': pgn, 'da': da, 'data': data, 'next': 1, 'grant_end': npk if da == 255 else 0,
             'lim': min(self.p['rts_limit'], 255), 'cts_seen': []}
        self.tx[(da, 0)] = s
        if da == 255:
            self.send(prio, 0, rc.PF_TP_CM, 255, rc.tp_bam(len(data), npk, pgn))
            self.sim.after(self._ms('bam_gap_ms'), lambda: self._send_dt21(s), 'peer')
        else:
            self.send(prio, 0, rc.PF_TP_CM, da, rc.tp_rts(len(data), npk, s['lim'], pgn))
        return True
