"""Loads the library under test from VERIF_REPO (default /repo) and rebinds its module-level
`time`, `queue`, `threading`, `secrets` names to the simulator's stand-ins.  No source hook."""
import logging
import os
import sys

from . import kernel

REPO = os.environ.get('VERIF_REPO', '/repo')
_installed = False
j1939 = None


def install():
    global _installed, j1939
    if _installed:
        return j1939
    if sys.path[0] != REPO:
        sys.path.insert(0, REPO)
    import j1939 as _j
    src = os.path.realpath(os.path.dirname(_j.__file__))
    if src != os.path.realpath(os.path.join(REPO, 'j1939')):
        raise kernel.HarnessError('j1939 imported from %s, not from %s' % (src, REPO))
    m = sys.modules
    ecu = m['j1939.electronic_control_unit']
    ecu.time = kernel.FakeTime
    ecu.queue = kernel.FakeQueueModule
    ecu.threading = kernel.FakeThreadingModule
    m['j1939.j1939_21'].time = kernel.FakeTime
    m['j1939.j1939_22'].time = kernel.FakeTime
    for name in ('j1939.j1939_21', 'j1939.j1939_22'):
        if hasattr(m[name], 'threading'):      # (locks, if the data link layer uses any)
            m[name].threading = kernel.FakeThreadingModule
    m['j1939.Dm14Query'].queue = kernel.FakeQueueModule
    m['j1939.Dm14Server'].queue = kernel.FakeQueueModule
    m['j1939.Dm14Server'].secrets = kernel.FakeSecrets
    logging.getLogger('j1939').setLevel(logging.CRITICAL + 10)
    logging.getLogger('can').setLevel(logging.CRITICAL + 10)
    j1939 = _j
    _installed = True
    return _j
