"""sys.settrace based pre-emption of a SimThread at (file, line, n-th hit) inside the library."""
import os

from . import seams


class Tracer:
    """One per traced thread.  plan: {(file, line, nth): hold_ns}.  When `armed`, every line event in
    the library is appended to `points` (recording) and looked up in the plan (pre-emption)."""

    def __init__(self, sim, plan=None, record=False):
        self.sim = sim
        self.plan = dict(plan or {})
        self.record = record
        self.points = []
        self.counts = {}
        self.armed = False
        self.fired = []
        self.prefix = os.path.join(os.path.realpath(seams.REPO), 'j1939') + os.sep
        self._names = {}

    def _short(self, fn):
        s = self._names.get(fn)
        if s is None:
            rp = os.path.realpath(fn)
            s = os.path.basename(rp) if rp.startswith(self.prefix) else ''
            self._names[fn] = s
        return s

    def global_trace(self, frame, event, arg):
        if event == 'call' and self._short(frame.f_code.co_filename):
            return self.local_trace
        return None

    def local_trace(self, frame, event, arg):
        if event == 'line' and self.armed:
            key = (self._short(frame.f_code.co_filename), frame.f_lineno)
            n = self.counts.get(key, 0) + 1
            self.counts[key] = n
            if self.record:
                self.points.append((key[0], key[1], n))
            hold = self.plan.get((key[0], key[1], n))
            if hold:
                self.fired.append((key[0], key[1], n))
                self.sim.log('preempt', key[0], key[1], n, hold)
                self.sim.preempt(hold)
        return self.local_trace
