"""sys.settrace based pre-emption of a SimThread at (file, line, n-th hit) inside the library."""
import os

from . import seams


class Tracer:
    """One per traced thread.  plan: {(file, line, nth): hold_ns}.  When `armed`, every line event in
    the library is appended to `points` (recording) and looked up in the plan (pre-emption)."""

    def __init__(self, sim, plan=None, record=False):
        self.sim = sim
        self.plan = dict(plan or {})
        self.record = record
        self.points = []
        self.counts = {}
        self.armed = False
        self.fired = []
        self.prefix = os.path.join(os.path.realpath(seams.REPO), 'j1939') + os.sep
        self._names = {}

    def _short(self, fn):
        s = self._names.get(fn)
        if s is None:
            rp = os.path.realpath(fn)
            s = os.path.basename(rp) if rp.startswith(self.prefix) else ''
            self._names[fn] = s
        return s

    def global_trace(self, frame, event, arg):
        if event == 'call' and self._short(frame.f_code.co_filename):
            return self.local_trace
        return None

    def local_trace(self, frame, event, arg):
        if event == 'line' and self.armed:
            key = (self._short(frame.f_code.co_filename), frame.f_lineno)
            n = self.counts.get(key, 0) + 1
            self.counts[key] = n
            if self.record:
                self.points.append((key[0], key[1], n))
            hold = self.plan.get((key[0], key[1], n))
            if hold:
                self.fired.append((key[0], key[1], n))
                self.sim.log('preempt', key[0], key[1], n, hold)
                self.sim.preempt(hold)
        return self.local_trace


class LineCount:
    """Trace function for one thread: at the k-th line event inside the library (optionally only in files whose name ends with
    one of `files`, and only while cond() holds) run fire() (scheduler context, at once) if given, and park the thread for hold_ns.
    targets: {k: (hold_ns, fire or None)}."""

    def __init__(self, sim, targets=None, files=None, cond=None):
        self.sim = sim
        self.targets = dict(targets or {})
        self.files = tuple(files) if files else None
        self.cond = cond
        self.n = 0
        self.fired = 0
        self.windows = []       # (from, to) the thread was held
        self.sites = []
        self.prefix = os.path.join(os.path.realpath(seams.REPO), 'j1939') + os.sep
        self._ok = {}

    def _mine(self, fn):
        r = self._ok.get(fn)
        if r is None:
            rp = os.path.realpath(fn)
            r = rp.startswith(self.prefix) and (self.files is None or rp.endswith(self.files))
            self._ok[fn] = r
        return r

    def global_trace(self, frame, event, arg):
        if event == 'call' and self.targets and self._mine(frame.f_code.co_filename):
            return self.local_trace
        return None

    def local_trace(self, frame, event, arg):
        if event == 'line' and self.targets and (self.cond is None or self.cond()):
            self.n += 1
            t = self.targets.pop(self.n, None)
            if t is not None:
                self.fired += 1
                self.windows.append((self.sim.now, self.sim.now + t[0]))
                self.sites.append((os.path.basename(frame.f_code.co_filename), frame.f_lineno))
                self.sim.log('preempt', os.path.basename(frame.f_code.co_filename), frame.f_lineno, self.n, t[0])
                if t[1] is not None:
                    self.sim.after(0, t[1], 'op')
                self.sim.preempt(t[0])
        return self.local_trace


def call_preempted(sim, fn, pre, name='app-call'):
    """Run the application call fn(): directly when `pre` is None, else in a simulated thread that is parked for pre['hold_us']
    at its pre['k']-th library source line (the job threads and reception run on meanwhile).  Returns (result, tracer or None)."""
    if not pre:
        return fn(), None
    tr = LineCount(sim, {pre['k']: (pre['hold_us'] * 1000, None)})
    return sim.call_in_thread(fn, name=name, trace=tr.global_trace), tr
